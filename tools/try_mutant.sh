#!/bin/bash
# apply a seeded change to /repo, run the named checks (quick), undo. usage: try_mutant.sh <patch> C03 [C10 ...]
P=$1; shift
cd /repo && git status --short | grep -v '^??' && { echo "/repo not clean"; exit 1; }
git -C /repo apply "$P" || { echo "patch does not apply"; exit 1; }
for id in "$@"; do
  ( cd /verif && /usr/bin/time -f "$id wall=%es" ./check $id ${TIER:-quick} 2>&1 | grep -vE "^\[C.. .*worker processes" | cut -c1-420 | head -${LINES_MAX:-8} )
done
git -C /repo apply -R "$P"; git -C /repo status --short | grep -v '^??'
# evidence files were rewritten by runs on a modified tree: restore the committed ones
cd /verif && git checkout -- evidence 2>/dev/null; true
