#!/usr/bin/env python3
"""Regenerate /verif/MANIFEST.json from plans.py (single source of truth for what each check runs)."""
import json
import os
import subprocess
import sys

ROOT = os.path.dirname(os.path.dirname(os.path.abspath(__file__)))
sys.path.insert(0, ROOT)
import plans  # noqa: E402

TITLES = {}
for line in open(os.path.join(ROOT, "properties.jsonl")):
    p = json.loads(line)
    TITLES[p["id"]] = p["title"]

TECH = {
    "C01": "reference-model monitor over query results; closure to a fixpoint + seeded histories; dbg/rel/Miri",
    "C02": "invariant monitor over hooked arena snapshots after every call; closure over all shapes + large-tree sweep",
    "C03": "reference-model monitor over iterator output (multiset); exhaustive 528x528 range pairs + seeded histories",
    "C04": "reference-model monitor (BTreeMap, unique ids, drop ledger); closure + seeded histories; dbg/rel/ASan/Miri",
    "C05": "reference-model monitor (BTreeMap, unique ids, drop ledger); closure + seeded histories; dbg/rel/ASan/Miri",
    "C06": "reference-model monitor over get_value; closure + seeded histories with target-position counters",
    "C07": "reference-model monitor over exported vectors (tree and list); every closed state x export times; dbg/rel/ASan/Miri",
    "C08": "reference-model monitor with handle dereference / write / delete and lookup sweeps; closure + seeded histories",
    "C09": "reference-model monitor over neighbour steps and full walks; closure + seeded histories; dbg/ASan/Miri",
    "C10": "sanitizers as crash oracles: debug assertions + overflow + std unsafe-precondition checks, AddressSanitizer, Miri, valgrind memcheck, watchdog with reproduced-stall rule",
    "C11": "invariant monitor: slot accounting partition and storage bound over hooked snapshots; closure + long churn",
    "C12": "differential monitor: cleared instance vs fresh twin under the same suffix, reference model alongside",
    "C13": "reference-model monitors of C01/C04-C09 run on the sorted-list variants",
    "C14": "configuration grid with hooked place observation vs independent bucket function; dbg/rel/ASan/Miri",
    "C15": "exhaustive enumeration of the finite mask space observed through queries and the hooked dump vs independent tiling",
    "C16": "invariant monitor over the hooked dump after fully consumed queries (only observation point for physical removal)",
    "C17": "held-handle monitor re-checked after insertions (also insertions that repeat a stored key); closure x insertion sequences + seeded histories",
    "C18": "fault injection at every callback invocation (panic), catch_unwind, structure + contents + continuation monitors; dbg/rel/ASan/Miri/memcheck",
    "C19": "allocation monitor (counting global allocator) + returned capacity under RLIMIT_AS; size sweep",
    "C20": "callback monitor: instrumented key and closure types record every argument handed to user comparison code",
}

NOTE = {
    "C10": "Trusted: rustc/std debug checks, ASan runtime, Miri, valgrind memcheck. ASan cannot see a wild access landing inside another live allocation; dbg's exact index check and Miri cover that on the paths they run. The no-hang clause is decided only as 'no reproduced stall of one call'.",
    "C18": "Trusted: catch_unwind semantics, the harness' reference models. Histories are short (18 ops) so that every injection point is enumerated; for a panic inside a segment-tree iterator the iterator is dropped and a fresh query is compared.",
}


def main():
    head = subprocess.run(["git", "-C", "/repo", "log", "--format=%H %s"], stdout=subprocess.PIPE, text=True).stdout.splitlines()
    hook_commits = [l.split()[0] for l in head if l.split(" ", 1)[1].startswith("verif:")]
    checks = []
    for i in range(1, 21):
        pid = "C%02d" % i
        p = plans.plan(pid, "quick", 0)
        flav = sorted(set(j["flavour"] for j in p["jobs"]))
        level = p["level"]
        text = (
            "Runtime monitoring: the real code is executed under generated workloads while monitors watch. "
            + p["rule"]
            + " Scope: "
            + p.get("exhaustive_scope", "")
            + ". Held means: no monitor fired and no worker died on the executions produced (flavours: "
            + ", ".join(flav)
            + "); it is not a proof."
        )
        checks.append(
            {
                "property_id": pid,
                "quick_cmd": "./check %s quick" % pid,
                "thorough_cmd": "./check %s thorough" % pid,
                "evidence_file": "/verif/evidence/%s.json" % pid,
                "replay_cmd_template": "./check replay {path}",
                "engine": "harness",
                "level_claimed": {"category": level, "text": text, "design_ref": "DESIGN.md section 3, %s" % pid},
                "level_note": NOTE.get(pid, "Trusted: the harness' reference models and validators (independent of the library's algorithms), the read-only verif-hooks where used, rustc/std. " + "; ".join(p.get("assumptions", []))),
                "technique": TECH[pid],
            }
        )
    m = {
        "version": 1,
        "setup_cmd": "./check setup",
        "hooks": {
            "guard": "cargo feature `verif-hooks` of i_tree (off by default)",
            "enable": "the harness crate depends on i_tree = { path = \"/repo\", features = [\"verif-hooks\"] }; every check runs `cargo build` first, so it rebuilds from /repo's working tree",
            "baseline_off_cmd": "cd /repo && cargo test --workspace --no-fail-fast --offline",
            "source_commits": hook_commits,
            "add_only": True,
        },
        "engines": [
            {
                "name": "harness",
                "path": "/verif/harness",
                "serves_properties": ["C%02d" % i for i in range(1, 21)],
                "kind_free_text": "std-only Rust worker (reference models, snapshot validators, callback/fault monitor, counting allocator) built in four flavours (dbg, rel, asan, miri) and driven by /verif/check (python3, stdlib only)",
            }
        ],
        "checks": checks,
        "not_applicable": [],
        "notes": "All 20 properties are claimed with runtime monitoring; exit 2 + INCONCLUSIVE is used for build/harness trouble and unmet observation thresholds, never a VIOLATION line. Known findings: /verif/known_findings.txt (all seven defects found are repaired by fix: commits; no open finding).",
    }
    json.dump(m, open(os.path.join(ROOT, "MANIFEST.json"), "w"), indent=1)
    print("MANIFEST.json written:", len(checks), "checks; hook commits", hook_commits)


if __name__ == "__main__":
    main()
