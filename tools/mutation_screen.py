#!/usr/bin/env python3
"""Systematic positive control: small syntactic mutants of the library (mutation testing).

For each sampled mutant of a source file: it must compile (with and without verif-hooks) and pass
the 59 baseline tests - otherwise it is not a "change that still passes the existing tests" and is
dropped. Survivors are run against the quick checks of the properties anchored in that file
(dbg + rel flavours only, through VERIF_REPO on a scratch worktree; /repo is never touched) until
one of them exits 1. A mutant that no check reports is listed as SURVIVED for manual analysis: it is
either equivalent (no property broken) or a gap.

usage: mutation_screen.py <out.jsonl> [--seed N] [--per-file K] [--files a.rs,b.rs]
"""
import json, os, random, re, subprocess, sys, time, hashlib

WT = "/tmp/mt/wt"
VERIF = os.path.dirname(os.path.dirname(os.path.abspath(__file__)))
CHECKS = {
    "src/key/tree.rs": ["C01", "C06", "C02", "C20", "C11"],
    "src/key/pool.rs": ["C11", "C02", "C01"],
    "src/key/node.rs": ["C01", "C06", "C02", "C20"],
    "src/key/array.rs": ["C07", "C19", "C10"],
    "src/key/list.rs": ["C13", "C20", "C12"],
    "src/map/tree.rs": ["C04", "C08", "C02", "C11", "C17"],
    "src/map/pool.rs": ["C11", "C04", "C17"],
    "src/map/list.rs": ["C13", "C12"],
    "src/set/tree.rs": ["C05", "C09", "C08", "C02", "C11"],
    "src/set/pool.rs": ["C11", "C05", "C17"],
    "src/set/list.rs": ["C13", "C12"],
    "src/seg/tree.rs": ["C03", "C16", "C15", "C12"],
    "src/seg/chunk.rs": ["C03", "C16", "C15"],
    "src/seg/heap.rs": ["C15", "C03", "C14"],
    "src/seg/layout.rs": ["C14", "C15", "C03"],
    "src/seg/bit.rs": ["C15", "C03"],
    "src/lib.rs": ["C01", "C13", "C03"],
}

OPS = [
    (r" <= ", " < "), (r" < ", " <= "), (r" >= ", " > "), (r" > ", " >= "), (r" == ", " != "), (r" != ", " == "),
    (r" && ", " || "), (r" \|\| ", " && "),
    (r" \+ 1\b", " + 0"), (r" - 1\b", " - 0"), (r" \+ ", " - "), (r" - ", " + "),
    (r" >> ", " << "), (r" << ", " >> "), (r" \| ", " & "), (r" & ", " | "),
    (r"Ordering::Less", "Ordering::Greater"), (r"Ordering::Greater", "Ordering::Less"),
    (r"Ordering::Equal", "Ordering::Less"),
    (r"\.left\b", ".right"), (r"\.right\b", ".left"),
    (r"Color::Red", "Color::Black"), (r"Color::Black", "Color::Red"),
    (r"\bis_red\b", "is_black"), (r"\bis_black\b", "is_red"),
    (r"EMPTY_REF", "0"), (r"\b0\b", "1"), (r"\b1\b", "2"), (r"\btrue\b", "false"), (r"\bfalse\b", "true"),
    (r"\bif (.+) \{$", r"if !(\1) {"),
    (r"\.rev\(\)", ""), (r"swap_remove", "remove"),
    (r"\bmin\(", "max("), (r"\bmax\(", "min("),
]


def mutants_of(path):
    src = open(os.path.join(WT, path)).read().split("\n")
    out = []
    in_tests = False
    for i, line in enumerate(src):
        if re.search(r"mod tests|#\[cfg\(test\)\]|cfg\(feature = \"verif-hooks\"\)", line):
            in_tests = True  # test / hook code runs to the end of the file in this crate
        s = line.strip()
        if in_tests or not s or s.startswith("//") or s.startswith("#[") or "debug_assert" in s or s.startswith("use ") or s.startswith("pub(super) struct") or s.startswith("pub struct"):
            continue
        for pat, rep in OPS:
            for m in re.finditer(pat, line):
                new = line[: m.start()] + re.sub(pat, rep, line[m.start(): m.end()]) + line[m.end():]
                if new != line:
                    out.append((path, i, "%s -> %s" % (pat, rep), new))
        # statement deletion: plain calls / assignments
        if s.endswith(";") and not re.match(r"(let |return|break|continue|pub |fn |use |const |static )", s) and "=>" not in s:
            out.append((path, i, "delete statement", line[: len(line) - len(line.lstrip())] + "// deleted"))
    return out


def sh(cmd, cwd, env=None, timeout=1800):
    e = dict(os.environ, CARGO_NET_OFFLINE="true")
    if env:
        e.update(env)
    try:
        p = subprocess.run(cmd, cwd=cwd, env=e, shell=True, stdout=subprocess.PIPE, stderr=subprocess.STDOUT, text=True, timeout=timeout)
        return p.returncode, p.stdout
    except subprocess.TimeoutExpired:
        return 124, "timeout"


def main():
    out = sys.argv[1]
    seed = int(sys.argv[sys.argv.index("--seed") + 1]) if "--seed" in sys.argv else 1
    per_file = int(sys.argv[sys.argv.index("--per-file") + 1]) if "--per-file" in sys.argv else 12
    files = sys.argv[sys.argv.index("--files") + 1].split(",") if "--files" in sys.argv else list(CHECKS)
    if not os.path.isdir(WT):
        os.makedirs(os.path.dirname(WT), exist_ok=True)
        rc, o = sh("git -C /repo worktree add -q --detach %s HEAD" % WT, "/")
        assert rc == 0, o
    rng = random.Random(seed)
    done = set()
    if os.path.exists(out):
        for l in open(out):
            r = json.loads(l)
            done.add((r["file"], r["line"], r["op"]))
    for path in files:
        sh("git checkout -- src", WT)
        ms = mutants_of(path)
        rng.shuffle(ms)
        taken = 0
        for (p, i, op, new) in ms:
            if taken >= per_file:
                break
            if (p, i + 1, op) in done:
                taken += 1
                continue
            full = os.path.join(WT, p)
            orig = open(full).read()
            lines = orig.split("\n")
            old_line = lines[i]
            lines[i] = new
            open(full, "w").write("\n".join(lines))
            rec = dict(file=p, line=i + 1, op=op, old=old_line.strip(), new=new.strip())
            t0 = time.time()
            rc, o = sh("cargo build --offline --features verif-hooks 2>&1 | tail -3", WT)
            if "error" in o or "warning: unused" in o and False:
                rec["status"] = "does-not-compile"
            else:
                rc, o = sh("timeout 300 cargo test --offline 2>&1 | grep -E '^test result|FAILED|panicked|error' | head -8", WT, timeout=400)
                # all five test targets (lib + 4 integration files) must have reported ok: a mutant that makes a
                # test hang is killed by the timeout after some targets have already printed their result
                if "FAILED" in o or "error" in o or o.count("test result: ok") < 5:
                    rec["status"] = "killed-by-baseline-tests"
                else:
                    taken += 1
                    rec["status"] = "SURVIVED"
                    rec["checks_run"] = []
                    for c in CHECKS[p]:
                        rc, o = sh("./check %s quick 2>&1 | tail -25" % c, VERIF, env=dict(VERIF_REPO=WT, VERIF_ONLY_FLAVOURS="dbg,rel"), timeout=2400)
                        rec["checks_run"].append(c)
                        if ("VIOLATION property=%s" % c) in o:  # (rc is the pipeline's, not the check's)
                            rec["status"] = "detected"
                            rec["detected_by"] = c
                            w = [l for l in o.split("\n") if "witness:" in l]
                            rec["witness"] = w[0].strip()[:300] if w else ""
                            break
                        if "build of flavour" in o and "failed" in o:
                            rec["status"] = "harness-build-failed"
                            break
            rec["seconds"] = round(time.time() - t0, 1)
            open(full, "w").write(orig)
            open(out, "a").write(json.dumps(rec) + "\n")
            print(rec["status"], p, i + 1, op, "|", rec["old"][:70], "=>", rec["new"][:70], "|", rec.get("detected_by", ""), flush=True)
    sh("git checkout -- src", WT)
    sh("cd %s && git checkout -- evidence" % VERIF, VERIF)


if __name__ == "__main__":
    main()
