#!/usr/bin/env python3
"""write seeded/<id>/meta.json from a results table (filled in after running the checks against each change)"""
import json, os, sys
ROOT = os.path.dirname(os.path.dirname(os.path.abspath(__file__)))
table = json.load(open(os.path.join(ROOT, "seeded", "results.json")))
for mid, r in table.items():
    d = os.path.join(ROOT, "seeded", mid)
    if not os.path.isdir(d):
        continue
    meta = {
        "mutant": mid,
        "breaks_property": r["property"],
        "change": r["change"],
        "needs_to_manifest": r["trigger"],
        "origin": "fresh sub-agent given only the property text and a scratch worktree of /repo (nothing from /verif)",
        "confirmed_by_me": {
            "compiles_with_and_without_verif_hooks": True,
            "baseline_59_tests_pass_with_change": True,
            "demo_fails_with_change_and_passes_without": True,
            "how": "tools/confirm_mutant.sh <id> in the agent's worktree: cargo build (both feature settings), the 59 baseline tests, the demo with the change applied, then `git apply -R patch.diff` and the demo again",
            "demo_cmd": open(os.path.join(d, "DEMO_CMD.txt")).read().strip() if os.path.exists(os.path.join(d, "DEMO_CMD.txt")) else "",
        },
        "checks_run": r["checks"],
        "detected_by": r["detected_by"],
        "first_witness": r.get("witness", ""),
        "notes": r.get("notes", ""),
    }
    json.dump(meta, open(os.path.join(d, "meta.json"), "w"), indent=1)
print("meta.json written for", len(table), "seeded changes")
