#!/bin/bash
# confirm a round-8+ mutant in its worktree and run the check(s) of its property against it.
# usage: eval_mutant.sh <worktree-name under /tmp/mut> <PROP> [more checks...]   (output: /tmp/mut/<name>.eval.txt)
N=$1; shift; P=$1
OUT=/tmp/mut/$N.eval.txt
{
  echo "##### confirm $N"; /verif/tools/confirm_mutant.sh $P $N 2>&1
  echo "##### checks"; LINES_MAX=${LINES_MAX:-10} /verif/tools/try_mutant.sh /tmp/mut/$N/patch.diff "$@" 2>&1
} > $OUT
grep -E "passed|FAILED|test result|VIOLATION|held on|INCONCLUSIVE|wall=" $OUT | head -30
