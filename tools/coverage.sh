#!/bin/bash
# Evidence only (never a verdict): which lines of /repo/src the union workload executes.
# Builds the harness with -Cinstrument-coverage on nightly, runs one modest worker per suite,
# merges the profiles and writes /verif/evidence/coverage.txt (+ uncovered regions).
set -e
cd /verif/harness
BIN=~/.rustup/toolchains/nightly-x86_64-unknown-linux-gnu/lib/rustlib/x86_64-unknown-linux-gnu/bin
export CARGO_TARGET_DIR=/verif/harness/target-cov CARGO_NET_OFFLINE=true
RUSTFLAGS="-Cinstrument-coverage" cargo +nightly build --offline --release 2>&1 | tail -1
H=$CARGO_TARGET_DIR/release/harness
W=/verif/work/cov; rm -rf $W; mkdir -p $W
run() { LLVM_PROFILE_FILE="$W/p-%p-%m.profraw" $H "$@" > /dev/null 2>&1 || echo "worker failed: $*"; }
run key-random --budget 1500 --coll both --mon all &
run key-closure --sets 3:2:8,4:3:1,5:2:0 --mon all &
run key-closure --coll list --sets 3:2:8,4:3:1 --mon pred,get,export,empty,cblive &
run ord-random --budget 1500 --coll maptree+settree+maplist+setlist+settree-int+maptree-int --mon all &
run ord-closure --sets maptree:7:8,settree:7:0,maplist:6:0,setlist:6:1 --mon all &
run seg-pairs --variant 0 --mon all &
run seg-pairs --variant 1 --mon all --shard 0/4 &
run seg-random --budget 4000 --mon all &
run seg-domains --shard 0/4 &
run fault --budget 700 &
run clear-twin --budget 2100 &
run export-size --max_n 30000 &
run big --max_n 100000 &
run big --max_n 100000 --probes handle &
run big --max_n 100000 --probes steps &
run sweep-line --budget 40 --seg 1 --mon pred,get,cblive,empty &
run exp-types --budget 10 &
run seg-bulk --max_n 70000 &
wait
$BIN/llvm-profdata merge -sparse $W/*.profraw -o $W/all.profdata
mkdir -p /verif/evidence
$BIN/llvm-cov report $H -instr-profile=$W/all.profdata --ignore-filename-regex='(harness/src|rustc|\.cargo|library/)' > /verif/evidence/coverage.txt 2>/dev/null
$BIN/llvm-cov show $H -instr-profile=$W/all.profdata --ignore-filename-regex='(harness/src|rustc|\.cargo|library/)' --show-line-counts-or-regions 2>/dev/null > $W/show.txt
# lines of library code (outside #[cfg(test)] modules and the verif hooks) that were never executed
python3 - "$W/show.txt" >> /verif/evidence/coverage.txt <<'PY'
import sys,re
cur=None; out=[]; intest=False
for line in open(sys.argv[1], errors='replace'):
    m=re.match(r'^(/repo/src/\S+):$', line.strip())
    if m: cur=m.group(1); intest=False; continue
    m=re.match(r'^\s*(\d+)\|\s*(\S*)\|(.*)$', line.rstrip('\n'))
    if not m or cur is None: continue
    ln,cnt,src=int(m.group(1)),m.group(2),m.group(3)
    if '#[cfg(test)]' in src: intest=True
    if intest or 'verif' in cur: continue
    if cnt=='0': out.append("%s:%d: %s" % (cur, ln, src.strip()[:110]))
print("\nLIBRARY LINES NEVER EXECUTED BY THE UNION WORKLOAD (%d):" % len(out))
print("\n".join(out))
PY
[ -n "$KEEP_COV" ] || rm -rf $W
tail -60 /verif/evidence/coverage.txt
