#!/bin/bash
# run checks against a behaviour-preserving refactor kept in a scratch worktree (precision control):
# every check must exit 0. usage: eval_refactor.sh <dir> C01 C02 ...   (output: <dir>.eval.txt)
D=$1; shift
OUT=$D.eval.txt
: > $OUT
cd /verif
for id in "$@"; do
  VERIF_REPO=$D /usr/bin/time -f "$id wall=%es" ./check $id ${TIER:-quick} > $OUT.$id 2>&1; rc=$?
  echo "== $id exit=$rc" >> $OUT
  grep -E "VIOLATION|witness|INCONCLUSIVE|NOTE|held on|wall=" $OUT.$id | cut -c1-700 | head -12 >> $OUT
  rm -f $OUT.$id
done
git checkout -- evidence 2>/dev/null
tag=$(python3 -c "import hashlib,os,sys;print(hashlib.sha1(os.path.realpath(sys.argv[1]).encode()).hexdigest()[:10])" $D)
rm -rf /tmp/verif-harness-$tag
grep -E "^== " $OUT | tr '\n' ' '; echo
