#!/bin/bash
# confirm a sub-agent's seeded change in ITS worktree: compiles, 59 baseline tests pass, demo fails
# with the change and passes without. usage: confirm_mutant.sh C03
ID=$1; WT=/tmp/mut/$ID; [ -n "$2" ] && WT=/tmp/mut/$2
cd $WT || exit 1
[ -s patch.diff ] || { echo "no patch.diff"; exit 1; }
# start from a clean library tree and apply exactly patch.diff (agents share the git stash, worktrees may hold foreign edits)
git checkout -q -- src Cargo.toml; git clean -fdq src; git apply patch.diff || { echo "patch.diff does not apply to a clean tree"; exit 1; }
DEMO=$(cat DEMO_CMD.txt | grep -E "cargo test" | head -1 | sed 's/^.*cargo test/cargo test/' | sed 's/`.*$//')
echo "demo cmd: $DEMO"
echo "--- build (both feature settings)"
cargo build --offline 2>&1 | tail -1; cargo build --offline --features verif-hooks 2>&1 | tail -1
echo "--- baseline tests with the change (demo excluded)"
cargo test --offline --lib --test array_tests --test map_tests --test set_tests --test tree_tests 2>&1 | grep -E "^test result" | awk '{p+=$4; f+=$6} END {print p" passed, "f" failed"}'
echo "--- demo WITH change (expect failure)"
eval "$DEMO" 2>&1 | grep -E "^test result|^test .*FAILED|panicked" | head -6
echo "--- demo WITHOUT change (expect pass)"
git apply -R patch.diff && eval "$DEMO" 2>&1 | grep -E "^test result|FAILED" | head -4; git apply patch.diff
git status --short | head
