#!/usr/bin/env python3
"""print a markdown table of what each check runs (from plans.py), for DESIGN.md section 4c"""
import os, sys
ROOT = os.path.dirname(os.path.dirname(os.path.abspath(__file__)))
sys.path.insert(0, ROOT)
import plans
print("| property | level | jobs in the quick tier (flavour: suite [monitors] x worker processes) | observation thresholds |")
print("|---|---|---|---|")
for i in range(1, 21):
    pid = "C%02d" % i
    p = plans.plan(pid, "quick", 0)
    jobs = []
    for j in p["jobs"]:
        a = j.get("args", {})
        extra = []
        for k in ("coll", "variant", "probes", "fault", "profile", "sets"):
            if k in a and k != "sets":
                extra.append("%s=%s" % (k, a[k]))
        if "sets" in a:
            extra.append("%d parameter sets" % len(str(a["sets"]).split(",")))
        jobs.append("%s: %s [%s]%s x%d" % (j["flavour"], j["suite"], a.get("mon", "fixed"), (" " + " ".join(extra)) if extra else "", j.get("shards", 1)))
    req = ", ".join("%s%s>=%s" % (k, "(soft)" if plans.is_soft(k) else "", v) for k, v in p.get("require", {}).items())
    print("| %s | %s | %s | %s |" % (pid, p["level"], "<br>".join(jobs), req))
