// Randomized differential check of the ordered export (and the queries around it) against a
// BTreeMap model.

use i_tree::key::array::IntoArray;
use i_tree::key::exp::KeyExpCollection;
use i_tree::key::list::KeyExpList;
use i_tree::key::tree::KeyExpTree;
use i_tree::ExpiredKey;
use rand::rngs::StdRng;
use rand::{Rng, SeedableRng};
use std::cell::Cell;
use std::cmp::Ordering;
use std::collections::BTreeMap;

thread_local! {
    static CMP_CALLS: Cell<u64> = const { Cell::new(0) };
    static NOW: Cell<i32> = const { Cell::new(i32::MIN) };
    static EXPIRED_CMP: Cell<u64> = const { Cell::new(0) };
}

#[derive(Debug, Clone, Copy)]
struct Key {
    key: i32,
    exp: i32,
    // probes are never stored, they may carry any expiration
    probe: bool,
}

impl Key {
    fn new(key: i32, exp: i32) -> Self {
        Self { key, exp, probe: false }
    }
    fn probe(key: i32) -> Self {
        Self { key, exp: i32::MAX, probe: true }
    }
    fn note(&self) {
        if !self.probe && self.exp <= NOW.with(|n| n.get()) {
            EXPIRED_CMP.with(|c| c.set(c.get() + 1));
        }
    }
}

impl Ord for Key {
    fn cmp(&self, other: &Self) -> Ordering {
        CMP_CALLS.with(|c| c.set(c.get() + 1));
        self.note();
        other.note();
        self.key.cmp(&other.key)
    }
}
impl Eq for Key {}
impl PartialEq for Key {
    fn eq(&self, other: &Self) -> bool {
        self.cmp(other) == Ordering::Equal
    }
}
impl PartialOrd for Key {
    fn partial_cmp(&self, other: &Self) -> Option<Ordering> {
        Some(self.cmp(other))
    }
}
impl ExpiredKey<i32> for Key {
    fn expiration(&self) -> i32 {
        self.exp
    }
}

// key -> (exp, val); expired entries are dropped lazily by `live`
struct Model {
    map: BTreeMap<i32, (i32, u64)>,
}

impl Model {
    fn live(&self, t: i32) -> Vec<(i32, u64)> {
        self.map
            .iter()
            .filter(|(_, (e, _))| *e > t)
            .map(|(k, (_, v))| (*k, *v))
            .collect()
    }
    fn export(&self, t: i32) -> Vec<u64> {
        self.live(t).into_iter().map(|(_, v)| v).collect()
    }
    fn get(&self, t: i32, k: i32) -> Option<u64> {
        self.live(t).into_iter().find(|(x, _)| *x == k).map(|(_, v)| v)
    }
    fn less(&self, t: i32, k: i32, d: u64) -> u64 {
        self.live(t).into_iter().filter(|(x, _)| *x < k).last().map(|(_, v)| v).unwrap_or(d)
    }
    fn less_eq(&self, t: i32, k: i32, d: u64) -> u64 {
        self.live(t).into_iter().filter(|(x, _)| *x <= k).last().map(|(_, v)| v).unwrap_or(d)
    }
}

fn check_export(vec: &[u64], cap: usize, expect: &[u64], what: &str) {
    assert_eq!(vec, expect, "{what}");
    assert!(cap >= vec.len());
    assert!(cap <= 2 * vec.len() + 1, "{what}: capacity {cap} for {} entries", vec.len());
}

fn run(seed: u64, steps: usize, key_space: i32, hint: usize, check_every_step: bool) {
    let mut rng = StdRng::seed_from_u64(seed);
    let mut tree: KeyExpTree<Key, i32, u64> = KeyExpTree::new(hint);
    let mut list: KeyExpList<Key, i32, u64> = KeyExpList::new(hint);
    let mut model = Model { map: BTreeMap::new() };
    let mut t = 0i32;
    let mut next_val = 1u64;
    NOW.with(|n| n.set(t));

    for _ in 0..steps {
        let op = rng.random_range(0..100);
        if rng.random_range(0..4) == 0 {
            t += rng.random_range(0..4);
            NOW.with(|n| n.set(t));
        }
        match op {
            0..=54 => {
                let k = rng.random_range(0..key_space);
                let alive = model.map.get(&k).map(|(e, _)| *e > t).unwrap_or(false);
                if !alive {
                    // expiration == t is allowed: such an entry is never visible
                    let exp = t + rng.random_range(0..12);
                    let v = next_val;
                    next_val += 1;
                    // a new key that is born expired may be compared (it is the new key itself)
                    let seen = EXPIRED_CMP.with(|c| c.get());
                    tree.insert(Key::new(k, exp), v, t);
                    list.insert(Key::new(k, exp), v, t);
                    if exp == t {
                        EXPIRED_CMP.with(|c| c.set(seen));
                    }
                    model.map.insert(k, (exp, v));
                }
            }
            55..=64 => {
                let k = rng.random_range(-1..key_space + 1);
                let e = model.get(t, k);
                assert_eq!(tree.get_value(t, Key::probe(k)), e);
                assert_eq!(list.get_value(t, Key::probe(k)), e);
            }
            65..=74 => {
                let k = rng.random_range(-1..key_space + 1);
                let e = model.less(t, k, 0);
                assert_eq!(tree.first_less(t, 0, Key::probe(k)), e);
                assert_eq!(list.first_less(t, 0, Key::probe(k)), e);
            }
            75..=84 => {
                let k = rng.random_range(-1..key_space + 1);
                let e = model.less_eq(t, k, 0);
                assert_eq!(tree.first_less_or_equal(t, 0, Key::probe(k)), e);
                assert_eq!(list.first_less_or_equal(t, 0, Key::probe(k)), e);
            }
            85..=97 => {
                let k = rng.random_range(-1..key_space + 1);
                let e = model.less_eq(t, k, 0);
                let f = |x: Key| {
                    x.note();
                    x.key.cmp(&k)
                };
                assert_eq!(tree.first_less_or_equal_by(t, 0, f), e);
                assert_eq!(list.first_less_or_equal_by(t, 0, f), e);
            }
            _ => {
                tree.clear();
                list.clear();
                model.map.clear();
                assert!(tree.is_empty());
                assert!(list.is_empty());
                if rng.random_range(0..2) == 0 {
                    t = rng.random_range(0..t.max(1));
                    NOW.with(|n| n.set(t));
                }
            }
        }

        #[cfg(feature = "verif-hooks")]
        if check_every_step {
            // export a copy at the current and at a later time, the original lives on
            for dt in [0, 3, 100] {
                NOW.with(|n| n.set(t + dt));
                let before = CMP_CALLS.with(|c| c.get());
                let v = tree.verif_clone().into_ordered_vec(t + dt);
                let l = list.verif_clone().into_ordered_vec(t + dt);
                assert_eq!(before, CMP_CALLS.with(|c| c.get()), "export must not compare keys");
                let e = model.export(t + dt);
                check_export(&v, v.capacity(), &e, "tree copy");
                assert_eq!(l, e, "list copy");
            }
            NOW.with(|n| n.set(t));
        }
        let _ = check_every_step;
    }

    // final export, possibly at a later time
    let te = t + rng.random_range(0..6);
    NOW.with(|n| n.set(te));
    let before = CMP_CALLS.with(|c| c.get());
    let v = tree.into_ordered_vec(te);
    let l = list.into_ordered_vec(te);
    assert_eq!(before, CMP_CALLS.with(|c| c.get()), "export must not compare keys");
    let e = model.export(te);
    check_export(&v, v.capacity(), &e, "tree");
    check_export(&l, l.capacity(), &e, "list");
    assert_eq!(EXPIRED_CMP.with(|c| c.get()), 0, "user comparison saw an expired key");
}

#[test]
fn selfcheck_export_small_histories() {
    for seed in 0..3000u64 {
        let steps = (seed % 60) as usize;
        run(seed, steps, 12, (seed % 20) as usize, true);
    }
}

#[test]
fn selfcheck_export_long_histories() {
    for seed in 0..60u64 {
        run(10_000 + seed, 3000, 40 + (seed as i32 % 7) * 50, 0, seed < 10);
    }
}

#[test]
fn selfcheck_export_shapes() {
    // ascending, descending, zig-zag insertion orders; every entry's liveness chosen freely
    for n in 0..200i32 {
        for shape in 0..3 {
            for mask_seed in 0..4u64 {
                let mut rng = StdRng::seed_from_u64(mask_seed * 1000 + n as u64);
                let mut tree: KeyExpTree<Key, i32, u64> = KeyExpTree::new(0);
                let mut list: KeyExpList<Key, i32, u64> = KeyExpList::new(0);
                let mut expect = BTreeMap::new();
                NOW.with(|c| c.set(0));
                for i in 0..n {
                    let k = match shape {
                        0 => i,
                        1 => n - i,
                        _ => if i % 2 == 0 { i } else { 2 * n - i },
                    };
                    let exp = match mask_seed {
                        0 => 10,
                        1 => 5,
                        _ => if rng.random_range(0..2) == 0 { 5 } else { 10 },
                    };
                    tree.insert(Key::new(k, exp), k as u64, 0);
                    list.insert(Key::new(k, exp), k as u64, 0);
                    if exp > 5 {
                        expect.insert(k, k as u64);
                    }
                }
                NOW.with(|c| c.set(5));
                let e: Vec<u64> = expect.values().copied().collect();
                let v = tree.into_ordered_vec(5);
                check_export(&v, v.capacity(), &e, "shape tree");
                let l = list.into_ordered_vec(5);
                check_export(&l, l.capacity(), &e, "shape list");
            }
        }
    }
}

#[test]
fn selfcheck_export_large() {
    let n = 200_000i32;
    let mut tree: KeyExpTree<Key, i32, u64> = KeyExpTree::new(16);
    NOW.with(|c| c.set(0));
    let mut rng = StdRng::seed_from_u64(7);
    let mut expect = Vec::new();
    for i in 0..n {
        let k = (i as i64 * 7919 % n as i64) as i32; // a permutation, 7919 is coprime to n
        let exp = if rng.random_range(0..3) == 0 { 1 } else { 9 };
        tree.insert(Key::new(k, exp), k as u64, 0);
        if exp > 1 {
            expect.push(k as u64);
        }
    }
    expect.sort();
    NOW.with(|c| c.set(1));
    let v = tree.into_ordered_vec(1);
    check_export(&v, v.capacity(), &expect, "large");
}
