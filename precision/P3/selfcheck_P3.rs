// Randomized differential self-check of the safety-hardened implementation against simple models.
// With `--features verif-hooks` the arena invariants are checked after every operation as well.
use std::cell::Cell;
use std::cmp::Ordering;
use std::collections::BTreeMap;
use std::panic::{catch_unwind, AssertUnwindSafe};

use i_tree::key::array::IntoArray;
use i_tree::key::exp::KeyExpCollection;
use i_tree::key::list::KeyExpList;
use i_tree::key::tree::KeyExpTree;
use i_tree::map::list::MapList;
use i_tree::map::sort::MapCollection;
use i_tree::map::tree::MapTree;
use i_tree::seg::exp::{SegExpCollection, SegRange};
use i_tree::seg::tree::SegExpTree;
use i_tree::set::list::SetList;
use i_tree::set::sort::{KeyValue, SetCollection};
use i_tree::set::tree::SetTree;
use i_tree::{ExpiredKey, ExpiredVal, EMPTY_REF};

struct Rng(u64);

impl Rng {
    fn next(&mut self) -> u64 {
        self.0 ^= self.0 << 13;
        self.0 ^= self.0 >> 7;
        self.0 ^= self.0 << 17;
        self.0
    }
    fn below(&mut self, n: u64) -> u64 {
        (self.next() >> 11) % n
    }
    fn range(&mut self, lo: i64, hi: i64) -> i64 {
        lo + self.below((hi - lo + 1) as u64) as i64
    }
}

// ---------------------------------------------------------------- arena invariants (hooks only)

#[cfg(feature = "verif-hooks")]
mod arena {
    use i_tree::verif::VerifSnapshot;
    use i_tree::EMPTY_REF;

    /// Checks C02 + C11 on a snapshot whose payload is the key; returns (stored, height).
    pub fn check(s: &VerifSnapshot<i64>, expect: Option<usize>) -> usize {
        let n = s.slots.len();
        if n == 0 {
            assert_eq!(s.root, EMPTY_REF);
            assert!(s.free.is_empty());
            assert!(expect.unwrap_or(0) == 0);
            return 0;
        }
        let mut state = vec![0u8; n];
        state[0] = 1;
        for &f in &s.free {
            assert_eq!(state[f as usize], 0, "slot free twice or sentinel");
            state[f as usize] = 2;
        }
        for (i, slot) in s.slots.iter().enumerate() {
            if state[i] != 0 {
                continue;
            }
            assert!(slot.left != 0 && slot.right != 0 && slot.parent != 0, "sentinel is linked");
        }
        let mut stored = 0;
        let mut max_height = 0;
        if s.root != EMPTY_REF {
            assert_eq!(s.slots[s.root as usize].parent, EMPTY_REF);
            let mut black = None;
            // (index, lo, hi, blacks, depth)
            let mut stack = vec![(s.root, i64::MIN, i64::MAX, 0usize, 1usize)];
            while let Some((i, lo, hi, b, d)) = stack.pop() {
                assert_eq!(state[i as usize], 0, "slot in tree twice, free or sentinel");
                state[i as usize] = 3;
                stored += 1;
                max_height = max_height.max(d);
                let slot = &s.slots[i as usize];
                let k = slot.payload;
                assert!(lo <= k && k <= hi, "search order");
                let b = b + usize::from(!slot.red);
                for (c, clo, chi) in [(slot.left, lo, k - 1), (slot.right, k + 1, hi)] {
                    if c == EMPTY_REF {
                        assert_eq!(*black.get_or_insert(b), b, "black height");
                    } else {
                        let child = &s.slots[c as usize];
                        assert_eq!(child.parent, i, "parent link");
                        assert!(!(slot.red && child.red), "red-red");
                        stack.push((c, clo, chi, b, d + 1));
                    }
                }
            }
        }
        assert!(state.iter().all(|&x| x != 0), "lost slot");
        if let Some(e) = expect {
            assert_eq!(stored, e);
        }
        let bound = 2.0 * ((stored + 1) as f64).log2() + 1.0;
        assert!(max_height as f64 <= bound, "height");
        n
    }
}

// ---------------------------------------------------------------- ordered map (C04 C08 C12 C17)

fn map_round(seed: u64, cap: usize, keys: i64, ops: usize) {
    let mut rng = Rng(seed | 1);
    let mut tree: MapTree<i64, String> = MapTree::new(cap);
    let mut list: MapList<i64, String> = MapList::new(cap);
    let mut model: BTreeMap<i64, String> = BTreeMap::new();
    let mut handles: Vec<(u32, i64)> = Vec::new();
    #[allow(unused_mut, unused_variables)]
    let mut peak = 0usize;
    for step in 0..ops {
        let k = rng.range(-keys, keys);
        match rng.below(10) {
            0..=3 => {
                if !model.contains_key(&k) {
                    let v = format!("v{}_{}", k, step);
                    tree.insert(k, v.clone());
                    list.insert(k, v.clone());
                    model.insert(k, v);
                }
            }
            4..=5 => {
                tree.delete(k);
                list.delete(k);
                model.remove(&k);
                handles.clear();
            }
            6 => {
                let ht = tree.first_index_less(k);
                let hl = list.first_index_less(k);
                let hb = tree.first_index_less_by(|s| s.cmp(&k));
                let lb = list.first_index_less_by(|s| s.cmp(&k));
                assert_eq!(ht, hb);
                assert_eq!(hl, lb);
                match model.range(..=k).next_back().map(|(a, b)| (*a, b.clone())) {
                    None => {
                        assert_eq!(ht, EMPTY_REF);
                        assert_eq!(hl, EMPTY_REF);
                    }
                    Some((mk, mv)) => {
                        assert_eq!(tree.value_by_index(ht), &mv);
                        assert_eq!(list.value_by_index(hl), &mv);
                        match rng.below(3) {
                            0 => {
                                tree.delete_by_index(ht);
                                list.delete_by_index(hl);
                                model.remove(&mk);
                                handles.clear();
                            }
                            1 => {
                                let nv = format!("w{}_{}", mk, step);
                                *tree.value_by_index_mut(ht) = nv.clone();
                                *list.value_by_index_mut(hl) = nv.clone();
                                model.insert(mk, nv);
                                handles.push((ht, mk));
                            }
                            _ => handles.push((ht, mk)),
                        }
                    }
                }
            }
            7..=8 => {
                assert_eq!(tree.get_value(k), model.get(&k));
                assert_eq!(list.get_value(k), model.get(&k));
            }
            _ => {
                if rng.below(40) == 0 {
                    tree.clear();
                    list.clear();
                    model.clear();
                    handles.clear();
                }
            }
        }
        assert_eq!(tree.is_empty(), model.is_empty());
        assert_eq!(list.is_empty(), model.is_empty());
        // C17: handles taken since the last deletion still designate their entry
        for &(h, hk) in &handles {
            assert_eq!(tree.value_by_index(h), &model[&hk]);
        }
        #[cfg(feature = "verif-hooks")]
        {
            peak = peak.max(model.len());
            let slots = arena::check(&tree.verif_snapshot(|k, _| *k), Some(model.len()));
            assert!(slots <= 2 * peak + cap.max(8) + 16, "C11 bound {} {}", slots, peak);
        }
    }
    for (k, v) in &model {
        assert_eq!(tree.get_value(*k), Some(v));
    }
}

#[test]
fn map_differential() {
    for seed in 0..60 {
        map_round(1000 + seed, (seed % 5) as usize * 3, 12 + (seed as i64 % 4) * 40, 1500);
    }
    map_round(77, 0, 3000, 40000);
}

// ---------------------------------------------------------------- ordered set (C05 C08 C09 C17)

#[derive(Clone, Default, Debug, PartialEq)]
struct Item {
    key: i64,
    payload: String,
}

impl KeyValue<i64> for Item {
    fn key(&self) -> &i64 {
        &self.key
    }
}

fn set_round(seed: u64, cap: usize, keys: i64, ops: usize) {
    let mut rng = Rng(seed | 1);
    let mut tree: SetTree<i64, Item> = SetTree::new(cap);
    let mut list: SetList<Item> = SetList::new(cap);
    let mut model: BTreeMap<i64, Item> = BTreeMap::new();
    let mut handles: Vec<(u32, i64)> = Vec::new();
    for step in 0..ops {
        let k = rng.range(-keys, keys);
        match rng.below(10) {
            0..=3 => {
                if !model.contains_key(&k) {
                    let v = Item { key: k, payload: format!("p{}_{}", k, step) };
                    tree.insert(v.clone());
                    list.insert(v.clone());
                    model.insert(k, v);
                }
            }
            4..=5 => {
                tree.delete(&k);
                list.delete(&k);
                model.remove(&k);
                handles.clear();
            }
            6 => {
                let ht = tree.first_index_less(&k);
                let hl = list.first_index_less(&k);
                assert_eq!(ht, tree.first_index_less_by(|s| s.cmp(&k)));
                assert_eq!(hl, list.first_index_less_by(|s| s.cmp(&k)));
                match model.range(..=k).next_back().map(|(a, b)| (*a, b.clone())) {
                    None => {
                        assert_eq!(ht, EMPTY_REF);
                        assert_eq!(hl, EMPTY_REF);
                    }
                    Some((mk, mv)) => {
                        assert_eq!(tree.value_by_index(ht), &mv);
                        assert_eq!(list.value_by_index(hl), &mv);
                        // C09: neighbours
                        let after = model.range(mk + 1..).next().map(|(_, v)| v);
                        let before = model.range(..mk).next_back().map(|(_, v)| v);
                        let (ta, tb) = (tree.index_after(ht), tree.index_before(ht));
                        let (la, lb) = (list.index_after(hl), list.index_before(hl));
                        match after {
                            None => assert!(ta == EMPTY_REF && la == EMPTY_REF),
                            Some(v) => {
                                assert_eq!(tree.value_by_index(ta), v);
                                assert_eq!(list.value_by_index(la), v);
                            }
                        }
                        match before {
                            None => assert!(tb == EMPTY_REF && lb == EMPTY_REF),
                            Some(v) => {
                                assert_eq!(tree.value_by_index(tb), v);
                                assert_eq!(list.value_by_index(lb), v);
                            }
                        }
                        match rng.below(3) {
                            0 => {
                                tree.delete_by_index(ht);
                                list.delete_by_index(hl);
                                model.remove(&mk);
                                handles.clear();
                            }
                            1 => {
                                let np = format!("q{}_{}", mk, step);
                                tree.value_by_index_mut(ht).payload = np.clone();
                                list.value_by_index_mut(hl).payload = np.clone();
                                model.get_mut(&mk).unwrap().payload = np;
                                handles.push((ht, mk));
                            }
                            _ => handles.push((ht, mk)),
                        }
                    }
                }
            }
            7 => {
                assert_eq!(tree.get_value(&k), model.get(&k));
                assert_eq!(list.get_value(&k), model.get(&k));
            }
            8 => {
                // full walks from both ends
                if let (Some(lo), Some(hi)) = (model.keys().next(), model.keys().next_back()) {
                    let mut h = tree.first_index_less(lo);
                    let mut seen = Vec::new();
                    while h != EMPTY_REF {
                        seen.push(tree.value_by_index(h).clone());
                        assert!(seen.len() <= model.len());
                        h = tree.index_after(h);
                    }
                    assert!(seen.iter().eq(model.values()));
                    let mut h = tree.first_index_less(hi);
                    let mut seen = Vec::new();
                    while h != EMPTY_REF {
                        seen.push(tree.value_by_index(h).clone());
                        assert!(seen.len() <= model.len());
                        h = tree.index_before(h);
                    }
                    assert!(seen.iter().eq(model.values().rev()));
                }
            }
            _ => {
                if rng.below(40) == 0 {
                    tree.clear();
                    list.clear();
                    model.clear();
                    handles.clear();
                }
            }
        }
        assert_eq!(tree.is_empty(), model.is_empty());
        assert_eq!(list.is_empty(), model.is_empty());
        for &(h, hk) in &handles {
            assert_eq!(tree.value_by_index(h), &model[&hk]);
        }
        #[cfg(feature = "verif-hooks")]
        arena::check(&tree.verif_snapshot(|v| v.key), Some(model.len()));
    }
}

#[test]
fn set_differential() {
    for seed in 0..60 {
        set_round(2000 + seed, (seed % 5) as usize * 3, 12 + (seed as i64 % 4) * 40, 1200);
    }
    set_round(99, 0, 3000, 30000);
}

// ------------------------------------------- expiring keys (C01 C06 C07 C12 C13 C19 C20)

thread_local! {
    static NOW: Cell<i64> = const { Cell::new(i64::MIN) };
    static CMP_BUDGET: Cell<i64> = const { Cell::new(i64::MAX) };
    static NEW_KEY: Cell<Option<(i64, i64)>> = const { Cell::new(None) };
}

#[derive(Clone, Copy, Debug)]
struct EKey {
    key: i64,
    exp: i64,
    probe: bool,
}

impl EKey {
    fn stored(key: i64, exp: i64) -> Self {
        Self { key, exp, probe: false }
    }
    fn probe(key: i64) -> Self {
        Self { key, exp: i64::MIN, probe: true }
    }
    /// C20: user comparison code must only ever see the probe and live stored keys.
    fn seen_by_user(&self) {
        if !self.probe && NEW_KEY.get() != Some((self.key, self.exp)) {
            assert!(self.exp > NOW.get(), "expired key {:?} compared at {}", self, NOW.get());
        }
        let b = CMP_BUDGET.get();
        if b == 0 {
            CMP_BUDGET.set(i64::MAX);
            panic!("injected comparison panic");
        }
        CMP_BUDGET.set(b - 1);
    }
}

impl Ord for EKey {
    fn cmp(&self, other: &Self) -> Ordering {
        self.seen_by_user();
        other.seen_by_user();
        self.key.cmp(&other.key)
    }
}
impl PartialOrd for EKey {
    fn partial_cmp(&self, other: &Self) -> Option<Ordering> {
        Some(self.cmp(other))
    }
}
impl PartialEq for EKey {
    fn eq(&self, other: &Self) -> bool {
        self.cmp(other) == Ordering::Equal
    }
}
impl Eq for EKey {}

impl ExpiredKey<i64> for EKey {
    fn expiration(&self) -> i64 {
        // the accessor may be asked about any stored key, it is the comparison that may not
        let b = CMP_BUDGET.get();
        if b == 0 {
            CMP_BUDGET.set(i64::MAX);
            panic!("injected accessor panic");
        }
        CMP_BUDGET.set(b - 1);
        self.exp
    }
}

/// Reference semantics: (key, exp, val) of everything inserted since the last clear.
#[derive(Default)]
struct ExpModel {
    all: Vec<(i64, i64, i64)>,
}

impl ExpModel {
    fn live(&self, t: i64) -> Vec<(i64, i64)> {
        let mut v: Vec<_> = self.all.iter().filter(|e| e.1 > t).map(|e| (e.0, e.2)).collect();
        v.sort();
        v
    }
    fn pred(&self, t: i64, k: i64, strict: bool, default: i64) -> i64 {
        self.live(t)
            .iter()
            .filter(|e| if strict { e.0 < k } else { e.0 <= k })
            .next_back()
            .map_or(default, |e| e.1)
    }
}

fn exp_round(seed: u64, cap: usize, keys: i64, ops: usize) {
    let mut rng = Rng(seed | 1);
    let mut tree: KeyExpTree<EKey, i64, i64> = KeyExpTree::new(cap);
    let mut list: KeyExpList<EKey, i64, i64> = KeyExpList::new(cap);
    let mut model = ExpModel::default();
    let mut t: i64 = rng.range(-50, 50);
    let mut val = 0;
    for _ in 0..ops {
        match rng.below(12) {
            0 => t += rng.range(0, 3),
            1 => {
                if rng.below(6) == 0 {
                    t += rng.range(5, 60);
                }
            }
            _ => {}
        }
        NOW.set(t);
        let k = rng.range(-keys, keys);
        match rng.below(12) {
            0..=4 => {
                if !model.live(t).iter().any(|e| e.0 == k) {
                    let exp = t + if rng.below(8) == 0 { 0 } else { rng.range(0, 40) };
                    val += 1;
                    NEW_KEY.set(Some((k, exp)));
                    tree.insert(EKey::stored(k, exp), val, t);
                    list.insert(EKey::stored(k, exp), val, t);
                    NEW_KEY.set(None);
                    model.all.push((k, exp, val));
                }
            }
            5..=6 => {
                let e = model.live(t).iter().find(|e| e.0 == k).map(|e| e.1);
                assert_eq!(tree.get_value(t, EKey::probe(k)), e);
                assert_eq!(list.get_value(t, EKey::probe(k)), e);
            }
            7 => {
                let e = model.pred(t, k, true, -7);
                assert_eq!(tree.first_less(t, -7, EKey::probe(k)), e);
                assert_eq!(list.first_less(t, -7, EKey::probe(k)), e);
            }
            8 => {
                let e = model.pred(t, k, false, -7);
                assert_eq!(tree.first_less_or_equal(t, -7, EKey::probe(k)), e);
                assert_eq!(list.first_less_or_equal(t, -7, EKey::probe(k)), e);
            }
            9..=10 => {
                let e = model.pred(t, k, false, -7);
                let f = |s: EKey| {
                    s.seen_by_user();
                    s.key.cmp(&k)
                };
                assert_eq!(tree.first_less_or_equal_by(t, -7, f), e);
                assert_eq!(list.first_less_or_equal_by(t, -7, f), e);
            }
            _ => {
                if rng.below(30) == 0 {
                    tree.clear();
                    list.clear();
                    model.all.clear();
                    assert!(tree.is_empty() && list.is_empty());
                    // the clock may restart after a clear
                    t = rng.range(-50, 50);
                }
            }
        }
        #[cfg(feature = "verif-hooks")]
        {
            let snap = tree.verif_snapshot(|k, _| k.key);
            arena::check(&snap, None);
        }
    }
    NOW.set(t);
    let expect: Vec<i64> = model.live(t).iter().map(|e| e.1).collect();
    let stored_bound = model.all.len();
    let out = tree.into_ordered_vec(t);
    assert_eq!(out, expect);
    assert_eq!(list.into_ordered_vec(t), expect);
    // C19
    assert!(out.capacity() <= 2 * out.len() + 8, "{} {}", out.capacity(), out.len());
    assert!(out.capacity() <= 2 * stored_bound + 8);
}

#[test]
fn exp_differential() {
    for seed in 0..400 {
        let ops = [0, 1, 5, 30, 200, 900][seed as usize % 6];
        exp_round(3000 + seed, (seed % 5) as usize * 3, 6 + (seed as i64 % 4) * 25, ops);
    }
    exp_round(55, 0, 400, 20000);
    NOW.set(i64::MIN);
}

// ---------------------------------------------------------------- segment tree (C03 C12 C14 C16)

#[derive(Clone, Copy, Debug, PartialEq)]
struct SVal {
    id: usize,
    exp: i64,
}

impl ExpiredVal<i64> for SVal {
    fn expiration(&self) -> i64 {
        let b = CMP_BUDGET.get();
        if b == 0 {
            CMP_BUDGET.set(i64::MAX);
            panic!("injected accessor panic");
        }
        CMP_BUDGET.set(b - 1);
        self.exp
    }
}

fn seg_round(seed: u64, ops: usize, inject: bool) {
    let mut rng = Rng(seed | 1);
    let lo = rng.range(-5000, 5000);
    let points = match rng.below(4) {
        0 => rng.range(1, 40),
        1 => rng.range(17, 64),
        2 => rng.range(17, 5000),
        _ => 1 << rng.range(5, 20),
    };
    let hi = lo + points - 1;
    let built = SegExpTree::<i64, i64, SVal>::new(SegRange { min: lo, max: hi });
    assert_eq!(built.is_some(), points > 16, "C14 {}", points);
    let Some(mut tree) = built else { return };
    let last = (hi - lo) as u64;
    let scale = (last.ilog2() + 1) - 5;
    let bucket = |x: i64| ((x - lo) as u64 >> scale) as i64;
    assert!(bucket(hi) < 32);

    // (id, bucket range, exp)
    let mut model: Vec<(usize, i64, i64, i64)> = Vec::new();
    let mut t = rng.range(-20, 20);
    let mut id = 0;
    for _ in 0..ops {
        let a = rng.range(lo, hi);
        let div = 1 + rng.range(0, 8);
        let b = if rng.below(3) == 0 { a } else { rng.range(a, hi.min(a + points / div)) };
        match rng.below(10) {
            0..=4 => {
                id += 1;
                let exp = t + rng.range(-3, 30);
                tree.insert_by_range(SegRange { min: a, max: b }, SVal { id, exp });
                model.push((id, bucket(a), bucket(b), exp));
            }
            5..=8 => {
                t += rng.range(0, 4);
                let (a, b) = if rng.below(5) == 0 { (lo, hi) } else { (a, b) };
                let take = if rng.below(3) == 0 { rng.below(6) as usize } else { usize::MAX };
                if inject && rng.below(3) == 0 {
                    CMP_BUDGET.set(rng.below(12) as i64);
                    let r = catch_unwind(AssertUnwindSafe(|| {
                        tree.iter_by_range(SegRange { min: a, max: b }, t).count()
                    }));
                    CMP_BUDGET.set(i64::MAX);
                    let _ = r;
                }
                let mut got: Vec<usize> = tree
                    .iter_by_range(SegRange { min: a, max: b }, t)
                    .take(take)
                    .map(|v| v.id)
                    .collect();
                let mut expect: Vec<usize> = model
                    .iter()
                    .filter(|m| m.3 >= t && m.1 <= bucket(b) && bucket(a) <= m.2)
                    .map(|m| m.0)
                    .collect();
                got.sort();
                expect.sort();
                if take == usize::MAX {
                    assert_eq!(got, expect);
                    #[cfg(feature = "verif-hooks")]
                    if a == lo && b == hi {
                        let dump = tree.verif_dump();
                        assert!(dump.copies.iter().all(|c| c.val.exp >= t), "C16");
                        for m in model.iter().filter(|m| m.3 >= t) {
                            let n = dump.copies.iter().filter(|c| c.val.id == m.0).count();
                            assert!((1..=8).contains(&n), "C15 copies {}", n);
                        }
                    }
                } else {
                    assert!(got.windows(2).all(|w| w[0] != w[1]), "yielded twice");
                    assert!(got.iter().all(|g| expect.contains(g)));
                    assert_eq!(got.len(), take.min(expect.len()));
                }
            }
            _ => {
                if rng.below(10) == 0 {
                    tree.clear();
                    model.clear();
                    t = rng.range(-20, 20);
                    assert_eq!(tree.iter_by_range(SegRange { min: lo, max: hi }, i64::MIN).count(), 0);
                }
            }
        }
    }
}

#[test]
fn seg_differential() {
    for seed in 0..300 {
        seg_round(4000 + seed, 400, false);
    }
    for seed in 0..150 {
        seg_round(4500 + seed, 400, true);
    }
    // wide and extreme domains build and answer
    for (lo, hi) in [(i64::MIN, i64::MAX), (i64::MIN, -1), (0, i64::MAX), (-8, 8), (-1 << 40, 1 << 41)] {
        let mut tree = SegExpTree::<i64, i64, SVal>::new(SegRange { min: lo, max: hi }).unwrap();
        tree.insert_by_range(SegRange { min: lo, max: lo }, SVal { id: 1, exp: 5 });
        tree.insert_by_range(SegRange { min: hi, max: hi }, SVal { id: 2, exp: 5 });
        tree.insert_by_range(SegRange { min: lo, max: hi }, SVal { id: 3, exp: 1 });
        let ids = |tree: &mut SegExpTree<i64, i64, SVal>, a, b, t| {
            let mut v: Vec<_> = tree.iter_by_range(SegRange { min: a, max: b }, t).map(|v| v.id).collect();
            v.sort();
            v
        };
        assert_eq!(ids(&mut tree, lo, lo, 0), vec![1, 3]);
        assert_eq!(ids(&mut tree, hi, hi, 0), vec![2, 3]);
        assert_eq!(ids(&mut tree, lo, hi, 2), vec![1, 2]);
        assert_eq!(ids(&mut tree, lo, hi, 6), Vec::<usize>::new());
    }
}

// ---------------------------------------------------------------- panicking callbacks (C18)

fn spend() {
    let b = CMP_BUDGET.get();
    if b == 0 {
        CMP_BUDGET.set(i64::MAX);
        panic!("injected callback panic");
    }
    CMP_BUDGET.set(b - 1);
}

#[derive(Clone, Copy, Default, Debug)]
struct PKey(i64);

impl Ord for PKey {
    fn cmp(&self, other: &Self) -> Ordering {
        spend();
        self.0.cmp(&other.0)
    }
}
impl PartialOrd for PKey {
    fn partial_cmp(&self, other: &Self) -> Option<Ordering> {
        Some(self.cmp(other))
    }
}
impl PartialEq for PKey {
    fn eq(&self, other: &Self) -> bool {
        self.cmp(other) == Ordering::Equal
    }
}
impl Eq for PKey {}

#[derive(Clone, Default, Debug)]
struct PItem {
    key: PKey,
    payload: i64,
}

impl KeyValue<PKey> for PItem {
    fn key(&self) -> &PKey {
        spend();
        &self.key
    }
}

/// Runs `f` with a callback budget; returns None when the injected panic fired.
fn with_budget<R>(budget: i64, f: impl FnOnce() -> R) -> Option<R> {
    CMP_BUDGET.set(budget);
    let r = catch_unwind(AssertUnwindSafe(f));
    CMP_BUDGET.set(i64::MAX);
    r.ok()
}

#[test]
fn panic_safety_map_and_set() {
    let mut rng = Rng(0xC18);
    let mut map: MapTree<PKey, i64> = MapTree::new(0);
    let mut set: SetTree<PKey, PItem> = SetTree::new(0);
    let mut model: BTreeMap<i64, i64> = BTreeMap::new();
    for step in 0..30000i64 {
        let k = rng.range(-60, 60);
        let budget = if rng.below(2) == 0 { rng.below(14) as i64 } else { i64::MAX };
        match rng.below(4) {
            0 | 1 => {
                if !model.contains_key(&k) {
                    let m = with_budget(budget, || map.insert(PKey(k), step)).is_some();
                    let s = with_budget(budget, || set.insert(PItem { key: PKey(k), payload: step }));
                    // before or after, never in between
                    let in_map = map.get_value(PKey(k)).copied();
                    let in_set = set.get_value(&PKey(k)).map(|v| v.payload);
                    assert!(in_map == Some(step) || (!m && in_map.is_none()));
                    assert!(in_set == Some(step) || (s.is_none() && in_set.is_none()));
                    // bring both to the "after" state
                    if in_map.is_none() {
                        map.insert(PKey(k), step);
                    }
                    if in_set.is_none() {
                        set.insert(PItem { key: PKey(k), payload: step });
                    }
                    model.insert(k, step);
                }
            }
            2 => {
                let m = with_budget(budget, || map.delete(PKey(k))).is_some();
                let s = with_budget(budget, || set.delete(&PKey(k))).is_some();
                let in_map = map.get_value(PKey(k)).copied();
                let in_set = set.get_value(&PKey(k)).map(|v| v.payload);
                let before = model.get(&k).copied();
                assert!(in_map.is_none() || (!m && in_map == before));
                assert!(in_set.is_none() || (!s && in_set == before));
                map.delete(PKey(k));
                set.delete(&PKey(k));
                model.remove(&k);
            }
            _ => {
                let _ = with_budget(budget, || map.first_index_less(PKey(k)));
                let _ = with_budget(budget, || set.first_index_less_by(|s| s.cmp(&PKey(k))));
            }
        }
        // contents are exactly the model's
        let h = map.first_index_less(PKey(k));
        let e = model.range(..=k).next_back().map(|(_, v)| *v);
        assert_eq!((h != EMPTY_REF).then(|| *map.value_by_index(h)), e);
        let h = set.first_index_less(&PKey(k));
        assert_eq!((h != EMPTY_REF).then(|| set.value_by_index(h).payload), e);
        #[cfg(feature = "verif-hooks")]
        if step % 8 == 0 {
            arena::check(&map.verif_snapshot(|k, _| k.0), Some(model.len()));
            arena::check(&set.verif_snapshot(|v| v.key.0), Some(model.len()));
        }
    }
}

#[test]
fn panic_safety_expiring() {
    let mut rng = Rng(0xE18);
    let mut tree: KeyExpTree<EKey, i64, i64> = KeyExpTree::new(0);
    let mut list: KeyExpList<EKey, i64, i64> = KeyExpList::new(0);
    let mut model = ExpModel::default();
    let mut t = 0i64;
    for step in 1..30000i64 {
        t += (rng.below(5) == 0) as i64 * rng.range(0, 6);
        NOW.set(t);
        let k = rng.range(-40, 40);
        let budget = if rng.below(2) == 0 { rng.below(14) as i64 } else { i64::MAX };
        if rng.below(2) == 0 {
            if !model.live(t).iter().any(|e| e.0 == k) {
                let key = EKey::stored(k, t + rng.range(0, 30));
                NEW_KEY.set(Some((key.key, key.exp)));
                let a = with_budget(budget, || tree.insert(key, step, t)).is_some();
                let b = with_budget(budget, || list.insert(key, step, t)).is_some();
                NEW_KEY.set(None);
                let in_tree = tree.get_value(t, EKey::probe(k));
                let in_list = list.get_value(t, EKey::probe(k));
                if key.exp > t {
                    assert!(in_tree == Some(step) || (!a && in_tree.is_none()));
                    assert!(in_list == Some(step) || (!b && in_list.is_none()));
                    NEW_KEY.set(Some((key.key, key.exp)));
                    if in_tree.is_none() {
                        tree.insert(key, step, t);
                    }
                    if in_list.is_none() {
                        list.insert(key, step, t);
                    }
                    NEW_KEY.set(None);
                    model.all.push((k, key.exp, step));
                } else {
                    // born expired: never visible, whether or not it got in
                    assert!(in_tree.is_none() && in_list.is_none());
                }
            }
        } else {
            let f = |s: EKey| {
                s.seen_by_user();
                s.key.cmp(&k)
            };
            let _ = with_budget(budget, || tree.first_less_or_equal_by(t, -7, f));
            let _ = with_budget(budget, || list.first_less(t, -7, EKey::probe(k)));
        }
        let e = model.pred(t, k, false, -7);
        assert_eq!(tree.first_less_or_equal(t, -7, EKey::probe(k)), e);
        assert_eq!(list.first_less_or_equal(t, -7, EKey::probe(k)), e);
        #[cfg(feature = "verif-hooks")]
        arena::check(&tree.verif_snapshot(|k, _| k.key), None);
    }
    let expect: Vec<i64> = model.live(t).iter().map(|e| e.1).collect();
    assert_eq!(tree.into_ordered_vec(t), expect);
    assert_eq!(list.into_ordered_vec(t), expect);
    NOW.set(i64::MIN);
}
