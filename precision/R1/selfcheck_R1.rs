// Randomized differential self-check of the expiring-key tree against a plain Vec model
// (and against the sorted-list twin). Run with and without `--features verif-hooks`;
// with the feature the arena is additionally audited after every operation.

use i_tree::key::array::IntoArray;
use i_tree::key::exp::KeyExpCollection;
use i_tree::key::list::KeyExpList;
use i_tree::key::tree::KeyExpTree;
use i_tree::ExpiredKey;
use rand::rngs::StdRng;
use rand::{Rng, SeedableRng};
use std::cell::Cell;
use std::cmp::Ordering;
use std::panic::{catch_unwind, AssertUnwindSafe};

thread_local! {
    /// time of the running operation, i32::MIN when no operation runs
    static NOW: Cell<i32> = const { Cell::new(i32::MIN) };
    /// number of user callbacks until one panics, negative = never
    static FUSE: Cell<i64> = const { Cell::new(-1) };
    static CALLS: Cell<u64> = const { Cell::new(0) };
    /// id of the key which is being inserted (the "new key itself" of C20)
    static NEW_ID: Cell<i32> = const { Cell::new(0) };
}

fn tick() {
    CALLS.with(|c| c.set(c.get() + 1));
    FUSE.with(|f| {
        let v = f.get();
        if v == 0 {
            f.set(-1);
            panic!("injected");
        }
        if v > 0 {
            f.set(v - 1);
        }
    });
}

#[derive(Clone, Copy, Debug)]
struct Key {
    k: i32,
    exp: i32,
    probe: bool,
    id: i32,
}

impl Key {
    /// marks the key as the one being inserted, until the next call
    fn stored(k: i32, exp: i32, id: i32) -> Self {
        NEW_ID.with(|c| c.set(id));
        Self { k, exp, probe: false, id }
    }
    fn probe(k: i32) -> Self {
        NEW_ID.with(|c| c.set(0));
        Self { k, exp: i32::MIN, probe: true, id: 0 }
    }
    /// C20: user ordering code must never see an expired stored key
    fn seen_by_user_code(&self) {
        if !self.probe && NEW_ID.with(|c| c.get()) != self.id {
            let now = NOW.with(|n| n.get());
            assert!(self.exp > now, "expired key {:?} compared at time {}", self, now);
        }
    }
}

impl PartialEq for Key {
    fn eq(&self, other: &Self) -> bool {
        self.cmp(other) == Ordering::Equal
    }
}
impl Eq for Key {}
impl PartialOrd for Key {
    fn partial_cmp(&self, other: &Self) -> Option<Ordering> {
        Some(self.cmp(other))
    }
}
impl Ord for Key {
    fn cmp(&self, other: &Self) -> Ordering {
        self.seen_by_user_code();
        other.seen_by_user_code();
        tick();
        self.k.cmp(&other.k)
    }
}
impl ExpiredKey<i32> for Key {
    fn expiration(&self) -> i32 {
        tick();
        self.exp
    }
}

/// live entries only, unsorted
#[derive(Clone, Default)]
struct Model {
    items: Vec<(i32, i32, i32)>, // key, exp, val
}

impl Model {
    fn expire(&mut self, t: i32) {
        self.items.retain(|e| e.1 > t);
    }
    fn get(&self, k: i32) -> Option<i32> {
        self.items.iter().find(|e| e.0 == k).map(|e| e.2)
    }
    fn below(&self, k: i32, inclusive: bool, default: i32) -> i32 {
        self.items
            .iter()
            .filter(|e| e.0 < k || (inclusive && e.0 == k))
            .max_by_key(|e| e.0)
            .map(|e| e.2)
            .unwrap_or(default)
    }
    fn ordered(&self) -> Vec<i32> {
        let mut v = self.items.clone();
        v.sort();
        v.iter().map(|e| e.2).collect()
    }
}

#[cfg(feature = "verif-hooks")]
mod audit {
    use super::*;
    use i_tree::EMPTY_REF;

    pub struct Stats {
        pub slots: usize,
        pub stored: usize,
    }

    /// C02 + C11 on the arena
    pub fn audit(tree: &KeyExpTree<Key, i32, i32>) -> Stats {
        let snap = tree.verif_snapshot(|k, v| (*k, *v));
        let n = snap.slots.len();
        let mut state = vec![0u8; n]; // 0 unknown, 1 free, 2 tree
        for &f in &snap.free {
            assert!(f != 0, "sentinel on the free list");
            assert_eq!(state[f as usize], 0, "slot {} free twice", f);
            state[f as usize] = 1;
        }
        let mut stored = 0;
        let mut height = 0;
        if snap.root != EMPTY_REF {
            assert_eq!(snap.slots[snap.root as usize].parent, EMPTY_REF);
            assert!(!snap.slots[snap.root as usize].red, "root is kept black");
            // (index, lower bound, upper bound, depth) -> black height
            fn walk(
                snap: &i_tree::verif::VerifSnapshot<(Key, i32)>,
                state: &mut [u8],
                i: u32,
                lo: Option<i32>,
                hi: Option<i32>,
                depth: usize,
                stored: &mut usize,
                height: &mut usize,
            ) -> usize {
                assert!(i != 0, "sentinel linked into the tree");
                assert_eq!(state[i as usize], 0, "slot {} used twice", i);
                state[i as usize] = 2;
                *stored += 1;
                *height = (*height).max(depth);
                let s = &snap.slots[i as usize];
                let k = s.payload.0.k;
                if let Some(lo) = lo { assert!(k > lo); }
                if let Some(hi) = hi { assert!(k < hi); }
                let mut bl = 0;
                let mut br = 0;
                if s.left != EMPTY_REF {
                    let c = &snap.slots[s.left as usize];
                    assert_eq!(c.parent, i);
                    assert!(!(s.red && c.red), "red-red");
                    bl = walk(snap, state, s.left, lo, Some(k), depth + 1, stored, height);
                }
                if s.right != EMPTY_REF {
                    let c = &snap.slots[s.right as usize];
                    assert_eq!(c.parent, i);
                    assert!(!(s.red && c.red), "red-red");
                    br = walk(snap, state, s.right, Some(k), hi, depth + 1, stored, height);
                }
                assert_eq!(bl, br, "black heights differ below slot {}", i);
                bl + if s.red { 0 } else { 1 }
            }
            walk(&snap, &mut state, snap.root, None, None, 1, &mut stored, &mut height);
        }
        for i in 1..n {
            assert_ne!(state[i], 0, "slot {} lost", i);
        }
        assert_eq!(stored + snap.free.len() + 1, n);
        let bound = 2.0 * ((stored + 1) as f64).log2() + 1.0;
        assert!(height as f64 <= bound, "height {} for {} entries", height, stored);
        Stats { slots: n, stored }
    }

    pub fn contents(tree: &KeyExpTree<Key, i32, i32>, time: i32) -> Vec<i32> {
        NOW.with(|n| n.set(time));
        let v = tree.verif_clone().into_ordered_vec(time);
        NOW.with(|n| n.set(i32::MIN));
        v
    }

    pub fn clone_is_faithful(tree: &KeyExpTree<Key, i32, i32>) {
        let a = tree.verif_snapshot(|k, v| (k.k, k.exp, *v));
        let b = tree.verif_clone().verif_snapshot(|k, v| (k.k, k.exp, *v));
        assert_eq!(a.root, b.root);
        assert_eq!(a.free, b.free);
        assert_eq!(a.free_capacity, b.free_capacity);
        assert_eq!(a.slots.len(), b.slots.len());
        for (x, y) in a.slots.iter().zip(b.slots.iter()) {
            assert_eq!((x.parent, x.left, x.right, x.red), (y.parent, y.left, y.right, y.red));
        }
        // payload of never used slots is zeroed memory in both, compare the used ones
        for (i, (x, y)) in a.slots.iter().zip(b.slots.iter()).enumerate() {
            if i != 0 && !a.free.contains(&(i as u32)) {
                assert_eq!(x.payload, y.payload);
            }
        }
    }
}

struct Run {
    tree: KeyExpTree<Key, i32, i32>,
    list: KeyExpList<Key, i32, i32>,
    model: Model,
    time: i32,
    next_val: i32,
    hint: usize,
    peak: usize,
}

impl Run {
    fn new(hint: usize) -> Self {
        Self {
            tree: KeyExpTree::new(hint),
            list: KeyExpList::new(hint),
            model: Model::default(),
            time: 0,
            next_val: 1,
            hint,
            peak: 0,
        }
    }

    fn check(&mut self) {
        #[cfg(feature = "verif-hooks")]
        {
            let stats = audit::audit(&self.tree);
            self.peak = self.peak.max(stats.stored);
            // C11, with a lot of room to spare
            assert!(
                stats.slots <= 2 * self.peak + self.hint.max(8) + 16,
                "{} slots for peak {} hint {}",
                stats.slots, self.peak, self.hint
            );
        }
        let _ = (self.peak, self.hint);
    }

    fn step(&mut self, rng: &mut StdRng, key_space: i32, max_life: i32) {
        // time never decreases
        if rng.random_range(0..3) == 0 {
            self.time += rng.random_range(0..4);
        }
        let t = self.time;
        let op = rng.random_range(0..100);
        NOW.with(|n| n.set(t));
        if op < 45 {
            // the key must not be live; an expired equal key may still be stored
            let k = rng.random_range(0..key_space);
            let mut m = self.model.clone();
            m.expire(t);
            if m.get(k).is_none() {
                let exp = t + rng.random_range(0..=max_life);
                let val = self.next_val;
                self.next_val += 1;
                self.tree.insert(Key::stored(k, exp, val), val, t);
                self.list.insert(Key::stored(k, exp, val), val, t);
                self.model.expire(t);
                self.model.items.push((k, exp, val));
                // it is visible from now on, as long as its expiration is above the time
                self.model.expire(t);
            }
        } else if op < 98 {
            self.model.expire(t);
            let k = rng.random_range(-1..=key_space);
            match op % 4 {
                0 => {
                    let want = self.model.get(k);
                    assert_eq!(self.tree.get_value(t, Key::probe(k)), want);
                    assert_eq!(self.list.get_value(t, Key::probe(k)), want);
                }
                1 => {
                    let want = self.model.below(k, false, -7);
                    assert_eq!(self.tree.first_less(t, -7, Key::probe(k)), want);
                    assert_eq!(self.list.first_less(t, -7, Key::probe(k)), want);
                }
                2 => {
                    let want = self.model.below(k, true, -7);
                    assert_eq!(self.tree.first_less_or_equal(t, -7, Key::probe(k)), want);
                    assert_eq!(self.list.first_less_or_equal(t, -7, Key::probe(k)), want);
                }
                _ => {
                    let want = self.model.below(k, true, -7);
                    NEW_ID.with(|c| c.set(0));
                    let f = |s: Key| {
                        s.seen_by_user_code();
                        s.k.cmp(&k)
                    };
                    assert_eq!(self.tree.first_less_or_equal_by(t, -7, f), want);
                    assert_eq!(self.list.first_less_or_equal_by(t, -7, f), want);
                }
            }
            // after an operation at time t emptiness is exact
            assert_eq!(self.tree.is_empty(), self.model.items.is_empty());
        } else {
            self.tree.clear();
            self.list.clear();
            self.model.items.clear();
            assert!(self.tree.is_empty());
            // the clock may restart
            if rng.random_range(0..2) == 0 {
                self.time = rng.random_range(0..=self.time);
            }
            #[cfg(feature = "verif-hooks")]
            {
                let snap = self.tree.verif_snapshot(|_, _| ());
                assert_eq!(snap.free.len() + 1, snap.slots.len());
            }
        }
        NOW.with(|n| n.set(i32::MIN));
        self.check();

        #[cfg(feature = "verif-hooks")]
        if rng.random_range(0..8) == 0 {
            let mut m = self.model.clone();
            m.expire(self.time);
            assert_eq!(audit::contents(&self.tree, self.time), m.ordered());
            audit::clone_is_faithful(&self.tree);
        }
    }

    fn finish(mut self) {
        let t = self.time;
        NOW.with(|n| n.set(t));
        self.model.expire(t);
        let want = self.model.ordered();
        let n = want.len();
        let got = self.tree.into_ordered_vec(t);
        assert_eq!(got, want);
        // C19
        assert!(got.capacity() <= 2 * n + 8, "capacity {} for {} entries", got.capacity(), n);
        assert_eq!(self.list.into_ordered_vec(t), want);
        NOW.with(|n| n.set(i32::MIN));
    }
}

#[test]
fn selfcheck_differential() {
    let mut rng = StdRng::seed_from_u64(0x5e1f_c4ec);
    for round in 0..400 {
        let hint = [0usize, 1, 8, 9, 64][round % 5];
        let key_space = [4, 16, 64, 400][round % 4];
        let max_life = [0, 2, 10, 60, 10_000][round % 5];
        let steps = if round % 10 == 0 { 3000 } else { 300 };
        let mut run = Run::new(hint);
        for _ in 0..steps {
            run.step(&mut rng, key_space, max_life);
        }
        run.finish();
    }
}

/// Everything expires at once, in bulk, below a few long living entries.
#[test]
fn selfcheck_waves() {
    let mut rng = StdRng::seed_from_u64(77);
    for _ in 0..60 {
        let mut run = Run::new(0);
        let mut t = 0;
        for wave in 0..12 {
            NOW.with(|n| n.set(t));
            let count = rng.random_range(1..200);
            let mut keys: Vec<i32> = (0..1000).collect();
            for _ in 0..count {
                let i = rng.random_range(0..keys.len());
                let k = keys.swap_remove(i);
                run.model.expire(t);
                if run.model.get(k).is_some() {
                    continue;
                }
                let exp = if rng.random_range(0..10) == 0 { t + 1000 } else { t + rng.random_range(0..3) };
                let val = run.next_val;
                run.next_val += 1;
                run.tree.insert(Key::stored(k, exp, val), val, t);
                run.list.insert(Key::stored(k, exp, val), val, t);
                run.model.items.push((k, exp, val));
                run.check();
            }
            t += rng.random_range(0..4);
            run.time = t;
            NOW.with(|n| n.set(t));
            run.model.expire(t);
            for _ in 0..20 {
                let k = rng.random_range(-1..=1000);
                assert_eq!(run.tree.first_less(t, -7, Key::probe(k)), run.model.below(k, false, -7));
                assert_eq!(run.tree.first_less_or_equal(t, -7, Key::probe(k)), run.model.below(k, true, -7));
                assert_eq!(run.tree.get_value(t, Key::probe(k)), run.model.get(k));
                run.check();
            }
            if wave == 7 {
                run.tree.clear();
                run.list.clear();
                run.model.items.clear();
                t = 0;
                run.time = 0;
                run.check();
            }
        }
        run.finish();
    }
}

/// C18: a panic in any user callback leaves the tree valid, with the contents of
/// before or after the operation.
#[test]
fn selfcheck_panicking_callbacks() {
    let prev = std::panic::take_hook();
    std::panic::set_hook(Box::new(|_| {}));
    let result = catch_unwind(|| {
        let mut rng = StdRng::seed_from_u64(4242);
        for round in 0..300 {
            let mut tree: KeyExpTree<Key, i32, i32> = KeyExpTree::new(round % 3);
            let mut model = Model::default();
            let mut t = 0;
            let mut next_val = 1;
            for _ in 0..120 {
                if rng.random_range(0..3) == 0 {
                    t += rng.random_range(0..3);
                }
                NOW.with(|n| n.set(t));
                model.expire(t);
                let k = rng.random_range(0..40);
                let fuse = if rng.random_range(0..3) == 0 { rng.random_range(0..30) } else { -1 };
                let insert = rng.random_range(0..2) == 0 && model.get(k).is_none();
                let exp = t + rng.random_range(0..6);
                let val = next_val;
                FUSE.with(|f| f.set(fuse));
                let outcome = catch_unwind(AssertUnwindSafe(|| {
                    if insert {
                        tree.insert(Key::stored(k, exp, val), val, t);
                        None
                    } else {
                        match val % 4 {
                            0 => Some(tree.get_value(t, Key::probe(k)).unwrap_or(-9)),
                            1 => Some(tree.first_less(t, -7, Key::probe(k))),
                            2 => Some(tree.first_less_or_equal(t, -7, Key::probe(k))),
                            _ => Some(tree.first_less_or_equal_by(t, -7, |s| {
                                NEW_ID.with(|c| c.set(0));
                                s.seen_by_user_code();
                                tick();
                                s.k.cmp(&k)
                            })),
                        }
                    }
                }));
                FUSE.with(|f| f.set(-1));
                next_val += 1;
                match outcome {
                    Ok(None) => {
                        model.items.push((k, exp, val));
                        model.expire(t);
                    }
                    Ok(Some(got)) => {
                        let want = match val % 4 {
                            0 => model.get(k).unwrap_or(-9),
                            1 => model.below(k, false, -7),
                            _ => model.below(k, true, -7),
                        };
                        assert_eq!(got, want);
                    }
                    Err(e) => {
                        let injected = e.downcast_ref::<&str>().map(|s| *s == "injected").unwrap_or(false);
                        assert!(injected, "a real failure inside the operation");
                        // all user code runs before an insertion touches the tree:
                        // the contents are those of before
                    }
                }
                #[cfg(feature = "verif-hooks")]
                {
                    audit::audit(&tree);
                    assert_eq!(audit::contents(&tree, t), model.ordered());
                }
                // observable contents, through the public interface
                NOW.with(|n| n.set(t));
                for q in 0..40 {
                    assert_eq!(tree.get_value(t, Key::probe(q)), model.get(q));
                }
            }
            NOW.with(|n| n.set(t));
            assert_eq!(tree.into_ordered_vec(t), model.ordered());
        }
    });
    std::panic::set_hook(prev);
    NOW.with(|n| n.set(i32::MIN));
    if let Err(e) = result {
        std::panic::resume_unwind(e);
    }
}

/// Storage follows the peak population, not the number of operations.
#[test]
fn selfcheck_storage_and_export_capacity() {
    for &n in &[0usize, 1, 2, 7, 8, 9, 100, 1000, 20_000] {
        let mut tree: KeyExpTree<Key, i32, i32> = KeyExpTree::new(0);
        NOW.with(|c| c.set(0));
        // churn: n live entries, replaced many times over
        for round in 0..5 {
            for i in 0..n {
                tree.insert(Key::stored(i as i32, round + 1, 1 + i as i32), i as i32, round);
            }
        }
        #[cfg(feature = "verif-hooks")]
        {
            let stats = audit::audit(&tree);
            assert!(stats.slots <= 4 * n + 24, "{} slots for {} entries", stats.slots, n);
        }
        NOW.with(|c| c.set(4));
        let v = tree.into_ordered_vec(4);
        assert_eq!(v, (0..n as i32).collect::<Vec<_>>());
        assert!(v.capacity() <= 2 * n + 8);
    }
    NOW.with(|c| c.set(i32::MIN));
}
