// Randomized differential self-check for the shared red-black core (change P6).
// Models: BTreeMap for map/set, a plain Vec for the expiring-key tree.
// With `--features verif-hooks` the arena is additionally validated after every operation.

use i_tree::key::array::IntoArray;
use i_tree::key::exp::KeyExpCollection;
use i_tree::key::list::KeyExpList;
use i_tree::key::tree::KeyExpTree;
use i_tree::map::sort::MapCollection;
use i_tree::map::tree::MapTree;
use i_tree::set::sort::{KeyValue, SetCollection};
use i_tree::set::tree::SetTree;
use i_tree::{ExpiredKey, EMPTY_REF};
use rand::rngs::StdRng;
use rand::{Rng, SeedableRng};
use std::cell::Cell;
use std::cmp::Ordering;
use std::collections::BTreeMap;
use std::panic::{catch_unwind, AssertUnwindSafe};

// ---- arena validation (only with the hooks) ---------------------------------------------------

#[cfg(feature = "verif-hooks")]
fn check_arena<T>(snap: &i_tree::verif::VerifSnapshot<T>, keys: &dyn Fn(&T) -> i64, expect: usize, peak: &mut usize, hint: usize) {
    let n = snap.slots.len();
    let mut state = vec![0u8; n]; // 0 unknown, 1 sentinel, 2 tree, 3 free
    state[0] = 1;
    for &f in &snap.free {
        assert!((f as usize) < n && state[f as usize] == 0, "free slot {} double used", f);
        state[f as usize] = 3;
    }
    assert!(snap.root != 0);
    // returns black height; checks order, links, colours
    fn walk<T>(snap: &i_tree::verif::VerifSnapshot<T>, keys: &dyn Fn(&T) -> i64, i: u32, parent: u32,
               lo: Option<i64>, hi: Option<i64>, state: &mut Vec<u8>, depth: usize, max_depth: &mut usize) -> usize {
        if i == EMPTY_REF { return 0; }
        assert!(i != 0, "sentinel linked");
        let s = &snap.slots[i as usize];
        assert_eq!(state[i as usize], 0, "slot {} used twice", i);
        state[i as usize] = 2;
        assert_eq!(s.parent, parent, "parent link of {}", i);
        let k = keys(&s.payload);
        if let Some(lo) = lo { assert!(k > lo); }
        if let Some(hi) = hi { assert!(k < hi); }
        if s.red {
            for c in [s.left, s.right] {
                if c != EMPTY_REF { assert!(!snap.slots[c as usize].red, "red-red at {}", i); }
            }
        }
        *max_depth = (*max_depth).max(depth);
        let l = walk(snap, keys, s.left, i, lo, Some(k), state, depth + 1, max_depth);
        let r = walk(snap, keys, s.right, i, Some(k), hi, state, depth + 1, max_depth);
        assert_eq!(l, r, "black height at {}", i);
        l + if s.red { 0 } else { 1 }
    }
    let mut max_depth = 0;
    walk(snap, keys, snap.root, EMPTY_REF, None, None, &mut state, 1, &mut max_depth);
    let in_tree = state.iter().filter(|&&s| s == 2).count();
    assert!(state.iter().all(|&s| s != 0), "lost slot");
    if expect != usize::MAX { assert_eq!(in_tree, expect); }
    let bound = 2.0 * ((in_tree + 1) as f64).log2() + 1.0;
    assert!(max_depth as f64 <= bound + 1e-9, "height {} > {}", max_depth, bound);
    *peak = (*peak).max(in_tree);
    assert!(n <= 2 * (*peak + 1) + hint.max(8) + 8, "arena {} for peak {}", n, peak);
}

// ---- ordered map ------------------------------------------------------------------------------

fn map_floor(model: &BTreeMap<i32, String>, probe: i32) -> Option<(i32, String)> {
    model.range(..=probe).next_back().map(|(k, v)| (*k, v.clone()))
}

#[test]
fn selfcheck_map_vs_btreemap() {
    for seed in 0..40u64 {
        let mut rng = StdRng::seed_from_u64(seed);
        let hint = [0usize, 1, 8, 50][(seed % 4) as usize];
        let span = [12, 60, 400][(seed % 3) as usize];
        let mut tree: MapTree<i32, String> = MapTree::new(hint);
        let mut model: BTreeMap<i32, String> = BTreeMap::new();
        let mut peak = 0usize;
        // handle remembered since the last deletion: (index, key)
        let mut pinned: Option<(u32, i32)> = None;

        for step in 0..3000 {
            let fill = (step / 500) % 2 == 0; // alternate fill / drain regimes
            let k = rng.random_range(0..span);
            match rng.random_range(0..100) {
                0..=39 => {
                    let do_insert = if fill { rng.random_range(0..4) != 0 } else { rng.random_range(0..4) == 0 };
                    if do_insert {
                        if !model.contains_key(&k) {
                            let v = format!("v{}_{}", k, step);
                            tree.insert(k, v.clone());
                            model.insert(k, v);
                        }
                    } else {
                        tree.delete(k);
                        model.remove(&k);
                        pinned = None;
                    }
                }
                40..=54 => assert_eq!(tree.get_value(k), model.get(&k)),
                55..=69 => {
                    let i = tree.first_index_less(k);
                    let j = tree.first_index_less_by(|s| s.cmp(&k));
                    assert_eq!(i, j);
                    match map_floor(&model, k) {
                        None => assert_eq!(i, EMPTY_REF),
                        Some((fk, fv)) => {
                            assert_ne!(i, EMPTY_REF);
                            assert_eq!(tree.value_by_index(i), &fv);
                            pinned = Some((i, fk));
                        }
                    }
                }
                70..=79 => {
                    let i = tree.first_index_less(k);
                    if let Some((fk, _)) = map_floor(&model, k) {
                        if rng.random_range(0..2) == 0 {
                            let v = format!("w{}_{}", fk, step);
                            *tree.value_by_index_mut(i) = v.clone();
                            model.insert(fk, v);
                        } else {
                            tree.delete_by_index(i);
                            model.remove(&fk);
                            pinned = None;
                        }
                    }
                }
                80..=97 => {
                    if let Some((i, pk)) = pinned {
                        // C17: the handle survived every insertion since it was taken
                        assert_eq!(tree.value_by_index(i), &model[&pk]);
                        assert_eq!(tree.first_index_less(pk), i);
                    }
                }
                _ => {
                    if rng.random_range(0..6) == 0 {
                        tree.clear();
                        model.clear();
                        pinned = None;
                    }
                }
            }
            peak = peak.max(model.len());
            assert_eq!(tree.is_empty(), model.is_empty());
            #[cfg(feature = "verif-hooks")]
            check_arena(&tree.verif_snapshot(|k, _| *k as i64), &|k| *k, model.len(), &mut peak, hint);
        }
        // final sweep over the whole key space
        for k in -1..=span {
            assert_eq!(tree.get_value(k), model.get(&k));
            let i = tree.first_index_less(k);
            assert_eq!(i == EMPTY_REF, map_floor(&model, k).is_none());
        }
        let _ = peak;
    }
}

// ---- ordered set ------------------------------------------------------------------------------

#[derive(Clone, Default, Debug, PartialEq)]
struct Item {
    key: i32,
    payload: String,
}

impl KeyValue<i32> for Item {
    fn key(&self) -> &i32 {
        &self.key
    }
}

#[test]
fn selfcheck_set_vs_btreemap() {
    for seed in 100..140u64 {
        let mut rng = StdRng::seed_from_u64(seed);
        let hint = [0usize, 3, 8, 64][(seed % 4) as usize];
        let span = [10, 70, 300][(seed % 3) as usize];
        let mut tree: SetTree<i32, Item> = SetTree::new(hint);
        let mut model: BTreeMap<i32, Item> = BTreeMap::new();
        let mut peak = 0usize;

        for step in 0..2500 {
            let fill = (step / 400) % 2 == 0;
            let k = rng.random_range(0..span);
            match rng.random_range(0..100) {
                0..=44 => {
                    let do_insert = if fill { rng.random_range(0..4) != 0 } else { rng.random_range(0..4) == 0 };
                    if do_insert {
                        if !model.contains_key(&k) {
                            let item = Item { key: k, payload: format!("p{}_{}", k, step) };
                            tree.insert(item.clone());
                            model.insert(k, item);
                        }
                    } else {
                        tree.delete(&k);
                        model.remove(&k);
                    }
                }
                45..=59 => assert_eq!(tree.get_value(&k), model.get(&k)),
                60..=79 => {
                    let i = tree.first_index_less(&k);
                    assert_eq!(i, tree.first_index_less_by(|s| s.cmp(&k)));
                    let floor = model.range(..=k).next_back().map(|(_, v)| v.clone());
                    match floor {
                        None => assert_eq!(i, EMPTY_REF),
                        Some(item) => {
                            assert_eq!(tree.value_by_index(i), &item);
                            // neighbours of the floor entry
                            let after = tree.index_after(i);
                            match model.range(item.key + 1..).next() {
                                None => assert_eq!(after, EMPTY_REF),
                                Some((_, nx)) => assert_eq!(tree.value_by_index(after), nx),
                            }
                            let before = tree.index_before(i);
                            match model.range(..item.key).next_back() {
                                None => assert_eq!(before, EMPTY_REF),
                                Some((_, pv)) => assert_eq!(tree.value_by_index(before), pv),
                            }
                            match rng.random_range(0..5) {
                                0 => {
                                    tree.delete_by_index(i);
                                    model.remove(&item.key);
                                }
                                1 => {
                                    let p = format!("q{}", step);
                                    tree.value_by_index_mut(i).payload = p.clone();
                                    model.get_mut(&item.key).unwrap().payload = p;
                                }
                                _ => {}
                            }
                        }
                    }
                }
                80..=89 => {
                    // full walks in both directions
                    if let Some((&lo, _)) = model.iter().next() {
                        let mut i = tree.first_index_less(&lo);
                        let mut seen = Vec::new();
                        while i != EMPTY_REF {
                            seen.push(tree.value_by_index(i).clone());
                            i = tree.index_after(i);
                        }
                        assert!(seen.iter().eq(model.values()));
                        let hi = *model.keys().next_back().unwrap();
                        let mut i = tree.first_index_less(&hi);
                        let mut back = Vec::new();
                        while i != EMPTY_REF {
                            back.push(tree.value_by_index(i).clone());
                            i = tree.index_before(i);
                        }
                        assert!(back.iter().eq(model.values().rev()));
                    }
                }
                _ => {
                    if rng.random_range(0..10) == 0 {
                        tree.clear();
                        model.clear();
                    }
                }
            }
            peak = peak.max(model.len());
            assert_eq!(tree.is_empty(), model.is_empty());
            #[cfg(feature = "verif-hooks")]
            check_arena(&tree.verif_snapshot(|v| v.key as i64), &|k| *k, model.len(), &mut peak, hint);
        }
        let _ = peak;
    }
}

// ---- expiring-key tree ------------------------------------------------------------------------

thread_local! {
    static NOW: Cell<i32> = const { Cell::new(i32::MIN) };   // time of the running operation
    static NEW_KEY: Cell<(i32, i32)> = const { Cell::new((i32::MIN, i32::MIN)) }; // key being inserted
    static FUSE: Cell<i64> = const { Cell::new(-1) };        // >0: user calls left before a panic
}

fn user_code(key: i32, exp: i32, what: &str) {
    // C20: user code never sees a stored key that has expired at the operation's time
    // (the key being inserted is the caller's own and may be dead on arrival)
    let is_new = NEW_KEY.with(|n| n.get()) == (key, exp);
    assert!(is_new || exp > NOW.with(|n| n.get()), "{} on an expired key", what);
    FUSE.with(|f| {
        let left = f.get();
        if left > 0 {
            f.set(left - 1);
            if left == 1 {
                panic!("fuse");
            }
        }
    });
}

#[derive(Clone, Copy, Debug)]
struct XKey {
    key: i32,
    exp: i32,
}

impl XKey {
    fn probe(key: i32) -> Self {
        Self { key, exp: i32::MAX }
    }
}

impl Ord for XKey {
    fn cmp(&self, other: &Self) -> Ordering {
        user_code(self.key, self.exp, "cmp");
        user_code(other.key, other.exp, "cmp");
        self.key.cmp(&other.key)
    }
}
impl PartialOrd for XKey {
    fn partial_cmp(&self, other: &Self) -> Option<Ordering> {
        Some(self.cmp(other))
    }
}
impl PartialEq for XKey {
    fn eq(&self, other: &Self) -> bool {
        self.cmp(other) == Ordering::Equal
    }
}
impl Eq for XKey {}

impl ExpiredKey<i32> for XKey {
    fn expiration(&self) -> i32 {
        // the accessor may of course be called on expired keys; it only shares the fuse
        user_code(self.key, i32::MAX, "expiration");
        self.exp
    }
}

/// Reference semantics: everything ever inserted since the last clear, visible while exp > t.
#[derive(Default, Clone)]
struct ExpModel {
    all: Vec<(i32, i32, i32)>, // key, exp, val
}

impl ExpModel {
    fn live(&self, t: i32) -> Vec<(i32, i32)> {
        let mut v: Vec<(i32, i32)> = self.all.iter().filter(|e| e.1 > t).map(|e| (e.0, e.2)).collect();
        v.sort();
        v
    }
    fn has_live(&self, t: i32, key: i32) -> bool {
        self.all.iter().any(|e| e.0 == key && e.1 > t)
    }
    fn get(&self, t: i32, key: i32) -> Option<i32> {
        self.all.iter().find(|e| e.0 == key && e.1 > t).map(|e| e.2)
    }
    fn below(&self, t: i32, key: i32, inclusive: bool, default: i32) -> i32 {
        self.live(t)
            .iter()
            .filter(|e| e.0 < key || (inclusive && e.0 == key))
            .next_back()
            .map(|e| e.1)
            .unwrap_or(default)
    }
}

#[test]
fn selfcheck_key_tree_vs_model_and_list() {
    for seed in 200..500u64 {
        let mut rng = StdRng::seed_from_u64(seed);
        let hint = [0usize, 2, 8, 40][(seed % 4) as usize];
        let span = [8, 40, 200][(seed % 3) as usize];
        let ttl = [3, 15, 80][((seed / 3) % 3) as usize];
        let mut tree: KeyExpTree<XKey, i32, i32> = KeyExpTree::new(hint);
        let mut list: KeyExpList<XKey, i32, i32> = KeyExpList::new(hint);
        let mut model = ExpModel::default();
        let mut t = 0i32;
        let mut peak = 0usize;

        for step in 0..400 {
            // bursts and clock jumps
            match rng.random_range(0..40) {
                0 => t += rng.random_range(0..2 * ttl),
                1..=9 => t += 1,
                _ => {}
            }
            NOW.with(|n| n.set(t));
            let k = rng.random_range(0..span);
            match rng.random_range(0..100) {
                0..=44 => {
                    if !model.has_live(t, k) {
                        let exp = t + rng.random_range(0..=ttl);
                        let key = XKey { key: k, exp };
                        NEW_KEY.with(|n| n.set((k, exp)));
                        tree.insert(key, step, t);
                        list.insert(key, step, t);
                        NEW_KEY.with(|n| n.set((i32::MIN, i32::MIN)));
                        model.all.push((k, exp, step));
                    }
                }
                45..=59 => {
                    let want = model.get(t, k);
                    assert_eq!(tree.get_value(t, XKey::probe(k)), want);
                    assert_eq!(list.get_value(t, XKey::probe(k)), want);
                }
                60..=69 => {
                    let want = model.below(t, k, false, -1);
                    assert_eq!(tree.first_less(t, -1, XKey::probe(k)), want);
                    assert_eq!(list.first_less(t, -1, XKey::probe(k)), want);
                }
                70..=79 => {
                    let want = model.below(t, k, true, -1);
                    assert_eq!(tree.first_less_or_equal(t, -1, XKey::probe(k)), want);
                    assert_eq!(list.first_less_or_equal(t, -1, XKey::probe(k)), want);
                }
                80..=94 => {
                    let want = model.below(t, k, true, -7);
                    let p = XKey::probe(k);
                    assert_eq!(tree.first_less_or_equal_by(t, -7, |s| s.cmp(&p)), want);
                    assert_eq!(list.first_less_or_equal_by(t, -7, |s| s.cmp(&p)), want);
                }
                _ => {
                    if rng.random_range(0..8) == 0 {
                        tree.clear();
                        list.clear();
                        model.all.clear();
                        assert!(tree.is_empty());
                        // the clock may restart after a clear
                        t = rng.random_range(0..=t);
                    }
                }
            }
            #[cfg(feature = "verif-hooks")]
            {
                check_arena(&tree.verif_snapshot(|k, _| k.key as i64), &|k| *k, usize::MAX, &mut peak, hint);
                if step % 7 == 0 {
                    let want: Vec<i32> = model.live(t).iter().map(|e| e.1).collect();
                    let copy = tree.verif_clone();
                    let got = copy.into_ordered_vec(t);
                    assert_eq!(got, want);
                    assert!(got.capacity() <= 2 * got.len() + 8);
                }
            }
        }
        // consume both at a (possibly later) time
        t += rng.random_range(0..ttl);
        NOW.with(|n| n.set(t));
        let want: Vec<i32> = model.live(t).iter().map(|e| e.1).collect();
        let got = tree.into_ordered_vec(t);
        assert!(got.capacity() <= 2 * got.len() + 8);
        assert_eq!(got, want);
        assert_eq!(list.into_ordered_vec(t), want);
        let _ = (peak, hint);
    }
    NOW.with(|n| n.set(i32::MIN));
}

// ---- C18: a panicking callback leaves before-or-after contents --------------------------------

fn with_fuse<R>(calls: i64, f: impl FnOnce() -> R) -> Option<R> {
    FUSE.with(|c| c.set(calls));
    let r = catch_unwind(AssertUnwindSafe(f));
    FUSE.with(|c| c.set(-1));
    r.ok()
}

#[derive(Clone, Copy, Default, Debug, PartialEq, Eq)]
struct PKey(i32);

impl Ord for PKey {
    fn cmp(&self, other: &Self) -> Ordering {
        user_code(self.0, i32::MAX, "cmp");
        self.0.cmp(&other.0)
    }
}
impl PartialOrd for PKey {
    fn partial_cmp(&self, other: &Self) -> Option<Ordering> {
        Some(self.cmp(other))
    }
}

#[derive(Clone, Default, Debug, PartialEq)]
struct PItem {
    key: PKey,
    payload: i32,
}
impl KeyValue<PKey> for PItem {
    fn key(&self) -> &PKey {
        user_code(self.key.0, i32::MAX, "key accessor");
        &self.key
    }
}

#[test]
fn selfcheck_panicking_callbacks() {
    let hook = std::panic::take_hook();
    std::panic::set_hook(Box::new(|_| {}));
    let result = catch_unwind(|| {
        for seed in 600..630u64 {
            let mut rng = StdRng::seed_from_u64(seed);
            let mut map: MapTree<PKey, i32> = MapTree::new(0);
            let mut set: SetTree<PKey, PItem> = SetTree::new(0);
            let mut model: BTreeMap<i32, i32> = BTreeMap::new();
            let mut peak = 0usize;
            for step in 0..600 {
                let k = rng.random_range(0..48);
                let fuse = rng.random_range(1..12);
                let insert = !model.contains_key(&k);
                let by_handle = rng.random_range(0..3) == 0;
                let done_map = with_fuse(fuse, || {
                    if insert {
                        map.insert(PKey(k), step)
                    } else if by_handle {
                        let i = map.first_index_less_by(|s| s.cmp(&PKey(k)));
                        map.delete_by_index(i)
                    } else {
                        map.delete(PKey(k))
                    }
                });
                let done_set = with_fuse(fuse, || {
                    if insert {
                        set.insert(PItem { key: PKey(k), payload: step })
                    } else if by_handle {
                        let i = set.first_index_less_by(|s| s.cmp(&PKey(k)));
                        set.delete_by_index(i)
                    } else {
                        set.delete(&PKey(k))
                    }
                });
                // contents are those before or those after, never in between
                let mut after = model.clone();
                if insert { after.insert(k, step); } else { after.remove(&k); }
                let map_now: Vec<(i32, i32)> = (0..48).filter_map(|q| map.get_value(PKey(q)).map(|v| (q, *v))).collect();
                let set_now: Vec<(i32, i32)> = (0..48).filter_map(|q| set.get_value(&PKey(q)).map(|v| (q, v.payload))).collect();
                let before_v: Vec<(i32, i32)> = model.iter().map(|(a, b)| (*a, *b)).collect();
                let after_v: Vec<(i32, i32)> = after.iter().map(|(a, b)| (*a, *b)).collect();
                assert_eq!(map_now, if done_map.is_some() { after_v.clone() } else { before_v.clone() });
                assert_eq!(set_now, if done_set.is_some() { after_v.clone() } else { before_v.clone() });
                #[cfg(feature = "verif-hooks")]
                {
                    check_arena(&map.verif_snapshot(|k, _| k.0 as i64), &|k| *k, map_now.len(), &mut peak, 0);
                    check_arena(&set.verif_snapshot(|v| v.key.0 as i64), &|k| *k, set_now.len(), &mut peak, 0);
                }
                // bring all three to the "after" state
                if done_map.is_none() {
                    if insert { map.insert(PKey(k), step) } else { map.delete(PKey(k)) }
                }
                if done_set.is_none() {
                    if insert { set.insert(PItem { key: PKey(k), payload: step }) } else { set.delete(&PKey(k)) }
                }
                model = after;
                let _ = &mut peak;
            }
        }
    });
    std::panic::set_hook(hook);
    if let Err(e) = result {
        std::panic::resume_unwind(e);
    }
}

#[test]
fn selfcheck_key_tree_panicking_callbacks() {
    let hook = std::panic::take_hook();
    std::panic::set_hook(Box::new(|_| {}));
    let result = catch_unwind(|| {
        for seed in 700..760u64 {
            let mut rng = StdRng::seed_from_u64(seed);
            let mut tree: KeyExpTree<XKey, i32, i32> = KeyExpTree::new(0);
            let mut model = ExpModel::default();
            let mut t = 0i32;
            let mut peak = 0usize;
            for step in 0..500 {
                if rng.random_range(0..6) == 0 {
                    t += rng.random_range(0..6);
                }
                NOW.with(|n| n.set(t));
                let k = rng.random_range(0..40);
                let fuse = rng.random_range(1..25);
                let mut after = model.clone();
                let done = if rng.random_range(0..2) == 0 && !model.has_live(t, k) {
                    let exp = t + rng.random_range(0..20);
                    after.all.push((k, exp, step));
                    NEW_KEY.with(|n| n.set((k, exp)));
                    let r = with_fuse(fuse, || tree.insert(XKey { key: k, exp }, step, t));
                    NEW_KEY.with(|n| n.set((i32::MIN, i32::MIN)));
                    r.is_some()
                } else {
                    let p = XKey::probe(k);
                    let want = model.below(t, k, true, -1);
                    match rng.random_range(0..3) {
                        0 => with_fuse(fuse, || tree.first_less_or_equal_by(t, -1, |s| s.cmp(&p))).map(|got| assert_eq!(got, want)).is_some(),
                        1 => with_fuse(fuse, || tree.get_value(t, p)).map(|got| assert_eq!(got, model.get(t, k))).is_some(),
                        _ => with_fuse(fuse, || tree.first_less(t, -1, p)).map(|got| assert_eq!(got, model.below(t, k, false, -1))).is_some(),
                    }
                };
                let expect = if done { &after } else { &model };
                #[cfg(feature = "verif-hooks")]
                check_arena(&tree.verif_snapshot(|k, _| k.key as i64), &|k| *k, usize::MAX, &mut peak, 0);
                for q in 0..40 {
                    assert_eq!(tree.get_value(t, XKey::probe(q)), expect.get(t, q), "seed {} step {} key {}", seed, step, q);
                }
                if !done && after.all.len() != model.all.len() {
                    let e = *after.all.last().unwrap();
                    NEW_KEY.with(|n| n.set((e.0, e.1)));
                    tree.insert(XKey { key: e.0, exp: e.1 }, e.2, t);
                    NEW_KEY.with(|n| n.set((i32::MIN, i32::MIN)));
                }
                model = after;
                let _ = &mut peak;
            }
        }
    });
    std::panic::set_hook(hook);
    NOW.with(|n| n.set(i32::MIN));
    if let Err(e) = result {
        std::panic::resume_unwind(e);
    }
}
