// Randomized differential self-check of the ordered set tree against BTreeMap (and SetList).
// Structural checks (red-black shape, slot accounting) run when built with `--features verif-hooks`.

use std::cell::Cell;
use std::cmp::Ordering;
use std::collections::BTreeMap;
use std::panic::{catch_unwind, AssertUnwindSafe};

use i_tree::set::list::SetList;
use i_tree::set::sort::{KeyValue, SetCollection};
use i_tree::set::tree::SetTree;
use i_tree::EMPTY_REF;

struct Rng(u64);
impl Rng {
    fn next(&mut self) -> u64 {
        self.0 ^= self.0 << 13;
        self.0 ^= self.0 >> 7;
        self.0 ^= self.0 << 17;
        self.0
    }
    fn below(&mut self, n: u64) -> u64 {
        self.next() % n
    }
}

#[derive(Clone, Default, Debug, PartialEq)]
struct Item {
    key: i32,
    payload: String,
}

impl KeyValue<i32> for Item {
    fn key(&self) -> &i32 {
        &self.key
    }
}

#[cfg(feature = "verif-hooks")]
fn check_structure<K, V: Clone + Default, T: Ord + Clone + std::fmt::Debug, F: Fn(&V) -> T>(
    tree: &SetTree<K, V>,
    f: F,
    expected: &[T],
) {
    let snap = tree.verif_snapshot(f);
    let n = snap.slots.len();
    let mut state = vec![0u8; n]; // 0 unknown, 1 tree, 2 free, 3 reserved
    state[0] = 3;
    for &i in &snap.free {
        assert!((i as usize) < n);
        assert_eq!(state[i as usize], 0, "slot {} free twice or reserved", i);
        state[i as usize] = 2;
    }
    assert!(snap.free_capacity >= snap.free.len());

    // in-order walk with black-height computation
    fn walk<T: Ord + Clone>(
        snap: &i_tree::verif::VerifSnapshot<T>,
        i: u32,
        parent: u32,
        state: &mut Vec<u8>,
        out: &mut Vec<T>,
        depth: usize,
        max_depth: &mut usize,
    ) -> usize {
        if i == EMPTY_REF {
            return 1;
        }
        assert_ne!(i, 0, "sentinel linked into the tree");
        let s = &snap.slots[i as usize];
        assert_eq!(state[i as usize], 0, "slot {} used twice", i);
        state[i as usize] = 1;
        assert_eq!(s.parent, parent, "parent link of {}", i);
        *max_depth = (*max_depth).max(depth);
        if s.red {
            for c in [s.left, s.right] {
                if c != EMPTY_REF {
                    assert!(!snap.slots[c as usize].red, "red-red at {}", i);
                }
            }
        }
        let lh = walk(snap, s.left, i, state, out, depth + 1, max_depth);
        out.push(s.payload.clone());
        let rh = walk(snap, s.right, i, state, out, depth + 1, max_depth);
        assert_eq!(lh, rh, "black height at {}", i);
        lh + if s.red { 0 } else { 1 }
    }

    let mut out = Vec::new();
    let mut max_depth = 0;
    walk(&snap, snap.root, EMPTY_REF, &mut state, &mut out, 1, &mut max_depth);
    if snap.root != EMPTY_REF {
        assert!(!snap.slots[snap.root as usize].red, "root must be black");
    }
    assert_eq!(out.as_slice(), expected);
    let cnt = out.len();
    assert!(state.iter().all(|&s| s != 0), "lost slot");
    let bound = 2.0 * ((cnt + 1) as f64).log2() + 1.0;
    assert!(max_depth as f64 <= bound);

    // clone is field-for-field
    let copy = tree.verif_clone();
    let snap2 = copy.verif_snapshot(|_| ());
    assert_eq!(snap2.root, snap.root);
    assert_eq!(snap2.free, snap.free);
    assert_eq!(snap2.free_capacity, snap.free_capacity);
    assert_eq!(snap2.slots.len(), snap.slots.len());
    for (a, b) in snap.slots.iter().zip(snap2.slots.iter()) {
        assert_eq!((a.parent, a.left, a.right, a.red), (b.parent, b.left, b.right, b.red));
    }
}

#[cfg(not(feature = "verif-hooks"))]
fn check_structure<K, V: Clone + Default, T: Ord + Clone + std::fmt::Debug, F: Fn(&V) -> T>(
    _tree: &SetTree<K, V>,
    _f: F,
    _expected: &[T],
) {
}

fn check_queries(
    tree: &SetTree<i32, Item>,
    list: &SetList<Item>,
    model: &BTreeMap<i32, String>,
    rng: &mut Rng,
    range: i32,
) {
    assert_eq!(tree.is_empty(), model.is_empty());
    assert_eq!(SetCollection::<i32, Item>::is_empty(list), model.is_empty());

    for _ in 0..6 {
        let probe = rng.below(range as u64 + 4) as i32 - 2;
        // lookup
        let got = tree.get_value(&probe).map(|v| (v.key, v.payload.clone()));
        let want = model.get(&probe).map(|p| (probe, p.clone()));
        assert_eq!(got, want);
        let got_l = list.get_value(&probe).map(|v| (v.key, v.payload.clone()));
        assert_eq!(got_l, want);

        // floor
        let want = model.range(..=probe).next_back().map(|(k, p)| (*k, p.clone()));
        let h1 = tree.first_index_less(&probe);
        let h2 = tree.first_index_less_by(|k| k.cmp(&probe));
        assert_eq!(h1, h2);
        let got = if h1 == EMPTY_REF {
            None
        } else {
            let v = tree.value_by_index(h1);
            Some((v.key, v.payload.clone()))
        };
        assert_eq!(got, want);
        let l1 = list.first_index_less(&probe);
        let l2 = list.first_index_less_by(|k: &i32| k.cmp(&probe));
        assert_eq!(l1, l2);
        let got = if l1 == EMPTY_REF {
            None
        } else {
            let v: &Item = SetCollection::<i32, Item>::value_by_index(list, l1);
            Some((v.key, v.payload.clone()))
        };
        assert_eq!(got, want);

        // neighbour steps from the floor handle
        if h1 != EMPTY_REF {
            let k = tree.value_by_index(h1).key;
            let a = tree.index_after(h1);
            let want = model.range(k + 1..).next().map(|(k, _)| *k);
            let got = if a == EMPTY_REF { None } else { Some(tree.value_by_index(a).key) };
            assert_eq!(got, want);
            let b = tree.index_before(h1);
            let want = model.range(..k).next_back().map(|(k, _)| *k);
            let got = if b == EMPTY_REF { None } else { Some(tree.value_by_index(b).key) };
            assert_eq!(got, want);
        }
    }
}

fn full_walk(tree: &SetTree<i32, Item>, model: &BTreeMap<i32, String>) {
    if model.is_empty() {
        assert!(tree.is_empty());
        assert_eq!(tree.first_index_less(&i32::MAX), EMPTY_REF);
        return;
    }
    let min = *model.keys().next().unwrap();
    let max = *model.keys().next_back().unwrap();
    // forward
    let mut h = tree.first_index_less(&min);
    let mut got = Vec::new();
    while h != EMPTY_REF {
        let v = tree.value_by_index(h);
        got.push((v.key, v.payload.clone()));
        h = tree.index_after(h);
        assert!(got.len() <= model.len());
    }
    let want: Vec<_> = model.iter().map(|(k, p)| (*k, p.clone())).collect();
    assert_eq!(got, want);
    // backward
    let mut h = tree.first_index_less(&max);
    let mut got = Vec::new();
    while h != EMPTY_REF {
        let v = tree.value_by_index(h);
        got.push((v.key, v.payload.clone()));
        h = tree.index_before(h);
        assert!(got.len() <= model.len());
    }
    got.reverse();
    assert_eq!(got, want);
}

fn run_history(seed: u64, range: i32, steps: usize, capacity: usize) {
    let mut rng = Rng(seed | 1);
    let mut tree: SetTree<i32, Item> = SetTree::new(capacity);
    let mut list: SetList<Item> = SetList::new(capacity);
    let mut model: BTreeMap<i32, String> = BTreeMap::new();
    // handles remembered since the last deletion/clear: (handle, key)
    let mut handles: Vec<(u32, i32)> = Vec::new();
    let mut stamp = 0u32;

    for _ in 0..steps {
        let op = rng.below(100);
        let key = rng.below(range as u64) as i32;
        if op < 45 {
            if !model.contains_key(&key) {
                stamp += 1;
                let payload = format!("p{}-{}", key, stamp);
                let item = Item { key, payload: payload.clone() };
                tree.insert(item.clone());
                list.insert(item);
                model.insert(key, payload);
                let h = tree.first_index_less(&key);
                assert_eq!(tree.value_by_index(h).key, key);
                handles.push((h, key));
            }
        } else if op < 70 {
            tree.delete(&key);
            SetCollection::<i32, Item>::delete(&mut list, &key);
            model.remove(&key);
            handles.clear();
        } else if op < 80 {
            // delete through a floor handle
            let h = tree.first_index_less_by(|k| k.cmp(&key));
            let l = list.first_index_less_by(|k: &i32| k.cmp(&key));
            assert_eq!(h == EMPTY_REF, l == EMPTY_REF);
            if h != EMPTY_REF {
                let k = tree.value_by_index(h).key;
                tree.delete_by_index(h);
                SetCollection::<i32, Item>::delete_by_index(&mut list, l);
                assert!(model.remove(&k).is_some());
                handles.clear();
            }
        } else if op < 90 {
            // write through a floor handle
            let h = tree.first_index_less(&key);
            let l = list.first_index_less(&key);
            if h != EMPTY_REF {
                stamp += 1;
                let k = tree.value_by_index(h).key;
                let payload = format!("w{}-{}", k, stamp);
                tree.value_by_index_mut(h).payload = payload.clone();
                let v: &mut Item = SetCollection::<i32, Item>::value_by_index_mut(&mut list, l);
                v.payload = payload.clone();
                *model.get_mut(&k).unwrap() = payload;
            }
        } else if op < 92 {
            tree.clear();
            SetCollection::<i32, Item>::clear(&mut list);
            model.clear();
            handles.clear();
        } else {
            full_walk(&tree, &model);
        }

        // C17: handles taken since the last deletion still designate the same entries
        for &(h, k) in &handles {
            let v = tree.value_by_index(h);
            assert_eq!(v.key, k);
            assert_eq!(&v.payload, model.get(&k).unwrap());
        }

        check_queries(&tree, &list, &model, &mut rng, range);
        let expected: Vec<(i32, String)> = model.iter().map(|(k, p)| (*k, p.clone())).collect();
        check_structure(&tree, |v: &Item| (v.key, v.payload.clone()), &expected);
    }
    full_walk(&tree, &model);
}

#[test]
fn differential_small_dense() {
    for seed in 1..=40u64 {
        run_history(seed * 7919, 12, 400, 0);
    }
}

#[test]
fn differential_medium() {
    for seed in 1..=20u64 {
        run_history(seed * 104729, 200, 1500, 4);
    }
}

#[test]
fn differential_large_sparse() {
    for seed in 1..=4u64 {
        run_history(seed * 1299709, 3000, 6000, 64);
    }
}

#[test]
fn ascending_descending_and_drain() {
    for n in [1i32, 2, 3, 7, 8, 9, 31, 32, 33, 500] {
        for dir in 0..2 {
            let mut tree: SetTree<i32, i32> = SetTree::new(0);
            let mut keys: Vec<i32> = (0..n).collect();
            if dir == 1 {
                keys.reverse();
            }
            for &k in &keys {
                tree.insert(k);
            }
            let mut expected: Vec<i32> = (0..n).collect();
            check_structure(&tree, |v| *v, &expected);
            // drain from the root side: always remove the floor of the median
            while !expected.is_empty() {
                let k = expected[expected.len() / 2];
                let h = tree.first_index_less(&k);
                assert_eq!(*tree.value_by_index(h), k);
                tree.delete_by_index(h);
                expected.remove(expected.len() / 2);
                check_structure(&tree, |v| *v, &expected);
                assert_eq!(tree.get_value(&k), None);
            }
            assert!(tree.is_empty());
        }
    }
}

#[test]
fn clear_is_like_new() {
    let mut rng = Rng(0x1234_5678_9abc_def1);
    let mut used: SetTree<i32, i32> = SetTree::new(3);
    for round in 0..30 {
        let n = rng.below(200) as i32;
        for k in 0..n {
            used.insert((k * 37) % 211 + round * 1000);
        }
        for k in 0..n / 2 {
            used.delete(&((k * 37) % 211 + round * 1000));
        }
        used.clear();
        assert!(used.is_empty());
        assert_eq!(used.first_index_less(&i32::MAX), EMPTY_REF);
        assert_eq!(used.get_value(&0), None);
        check_structure(&used, |v| *v, &[]);

        let mut fresh: SetTree<i32, i32> = SetTree::new(3);
        let mut model = Vec::new();
        for _ in 0..100 {
            let k = rng.below(50) as i32;
            if model.contains(&k) {
                used.delete(&k);
                fresh.delete(&k);
                model.retain(|x| *x != k);
            } else {
                used.insert(k);
                fresh.insert(k);
                model.push(k);
            }
            for p in -1..51 {
                assert_eq!(used.get_value(&p), fresh.get_value(&p));
                let a = used.first_index_less(&p);
                let b = fresh.first_index_less(&p);
                assert_eq!(a == EMPTY_REF, b == EMPTY_REF);
                if a != EMPTY_REF {
                    assert_eq!(used.value_by_index(a), fresh.value_by_index(b));
                }
            }
        }
        used.clear();
    }
}

#[cfg(feature = "verif-hooks")]
#[test]
fn storage_is_bounded_by_peak() {
    let mut rng = Rng(0xdead_beef_cafe_f00d);
    for hint in [0usize, 1, 8, 100] {
        let mut tree: SetTree<i32, i32> = SetTree::new(hint);
        let mut live: Vec<i32> = Vec::new();
        let peak = 50usize;
        for step in 0..20000 {
            if live.len() < peak && rng.below(2) == 0 {
                let k = rng.below(1_000_000) as i32;
                if !live.contains(&k) {
                    tree.insert(k);
                    live.push(k);
                }
            } else if !live.is_empty() {
                let i = rng.below(live.len() as u64) as usize;
                let k = live.swap_remove(i);
                tree.delete(&k);
            }
            if step % 997 == 0 {
                tree.clear();
                live.clear();
            }
        }
        let snap = tree.verif_snapshot(|_| ());
        assert!(snap.slots.len() <= 8 * peak + 2 * hint + 64, "slots {}", snap.slots.len());
    }
}

// ---------------------------------------------------------------- panicking callbacks (C18)

thread_local! {
    static FUSE: Cell<i64> = const { Cell::new(i64::MAX) };
}

fn burn() {
    FUSE.with(|f| {
        let v = f.get();
        if v == 0 {
            f.set(i64::MAX);
            panic!("fuse");
        }
        if v != i64::MAX {
            f.set(v - 1);
        }
    });
}

#[derive(Clone, Copy, Default, Debug, PartialEq, Eq)]
struct PKey(i32);

impl PartialOrd for PKey {
    fn partial_cmp(&self, other: &Self) -> Option<Ordering> {
        Some(self.cmp(other))
    }
}

impl Ord for PKey {
    fn cmp(&self, other: &Self) -> Ordering {
        burn();
        self.0.cmp(&other.0)
    }
}

#[derive(Clone, Default, Debug, PartialEq)]
struct PItem {
    key: PKey,
    payload: i32,
}

impl KeyValue<PKey> for PItem {
    fn key(&self) -> &PKey {
        burn();
        &self.key
    }
}

fn contents(tree: &SetTree<PKey, PItem>) -> Vec<(i32, i32)> {
    let mut out = Vec::new();
    let mut h = tree.first_index_less(&PKey(i32::MAX));
    while h != EMPTY_REF {
        let v = tree.value_by_index(h);
        out.push((v.key.0, v.payload));
        h = tree.index_before(h);
    }
    out.reverse();
    out
}

#[test]
fn panicking_callbacks_leave_tree_untorn() {
    let prev = std::panic::take_hook();
    std::panic::set_hook(Box::new(|_| {}));
    let result = catch_unwind(|| {
        let mut rng = Rng(0x0bad_c0de_1234_4321);
        let mut tree: SetTree<PKey, PItem> = SetTree::new(0);
        let mut model: BTreeMap<i32, i32> = BTreeMap::new();
        for step in 0..6000 {
            let key = rng.below(40) as i32;
            let fuse = rng.below(14) as i64;
            let before: Vec<(i32, i32)> = model.iter().map(|(k, v)| (*k, *v)).collect();
            let op = rng.below(5);
            let mut after_model = model.clone();
            match op {
                0 | 1 => {
                    if !model.contains_key(&key) {
                        after_model.insert(key, step);
                    }
                }
                2 => {
                    after_model.remove(&key);
                }
                _ => {}
            }
            let after: Vec<(i32, i32)> = after_model.iter().map(|(k, v)| (*k, *v)).collect();

            FUSE.with(|f| f.set(fuse));
            let r = catch_unwind(AssertUnwindSafe(|| match op {
                0 | 1 => {
                    if !model.contains_key(&key) {
                        tree.insert(PItem { key: PKey(key), payload: step });
                    }
                }
                2 => tree.delete(&PKey(key)),
                3 => {
                    let h = tree.first_index_less_by(|k| k.cmp(&PKey(key)));
                    if h != EMPTY_REF {
                        let _ = tree.index_after(h);
                        let _ = tree.index_before(h);
                    }
                }
                _ => {
                    let _ = tree.get_value(&PKey(key));
                    let _ = tree.first_index_less(&PKey(key));
                }
            }));
            FUSE.with(|f| f.set(i64::MAX));

            let now = contents(&tree);
            if r.is_ok() {
                assert_eq!(now, after);
                model = after_model;
            } else {
                assert!(now == before || now == after, "torn update");
                if now == after {
                    model = after_model;
                }
            }
            check_structure(&tree, |v: &PItem| (v.key.0, v.payload), &now);
        }
    });
    std::panic::set_hook(prev);
    if let Err(e) = result {
        std::panic::resume_unwind(e);
    }
}
