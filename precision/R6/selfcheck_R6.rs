// Randomized differential check of the segment tree against a plain Vec model.
//
// The model knows nothing about heaps or masks: it maps a coordinate to one of 32 equal
// power-of-two-width buckets (smallest width for which 32 buckets cover the domain) and
// answers a query with every stored value whose expiration is >= t and whose bucket range
// shares a bucket with the query's.

use i_tree::ExpiredVal;
use i_tree::seg::exp::{SegExpCollection, SegRange};
use i_tree::seg::tree::SegExpTree;

#[derive(Clone, Copy, Debug, PartialEq, Eq, PartialOrd, Ord)]
struct Val {
    id: u32,
    exp: i32,
}

impl ExpiredVal<i32> for Val {
    fn expiration(&self) -> i32 {
        self.exp
    }
}

struct Rng(u64);

impl Rng {
    fn next(&mut self) -> u64 {
        self.0 ^= self.0 << 13;
        self.0 ^= self.0 >> 7;
        self.0 ^= self.0 << 17;
        self.0
    }
    fn below(&mut self, n: u128) -> u128 {
        let x = ((self.next() as u128) << 64) | self.next() as u128;
        x % n
    }
}

struct Model {
    lo: i128,
    scale: u32,
    items: Vec<(Val, u32, u32)>,
}

impl Model {
    fn new(lo: i64, hi: i64) -> Self {
        let span = hi as i128 - lo as i128;
        let mut scale = 0;
        while (span >> scale) >= 32 {
            scale += 1;
        }
        Self { lo: lo as i128, scale, items: Vec::new() }
    }
    fn bucket(&self, x: i64) -> u32 {
        ((x as i128 - self.lo) >> self.scale) as u32
    }
    fn insert(&mut self, a: i64, b: i64, v: Val) {
        self.items.push((v, self.bucket(a), self.bucket(b)));
    }
    fn query(&self, a: i64, b: i64, t: i32) -> Vec<Val> {
        let (qa, qb) = (self.bucket(a), self.bucket(b));
        let mut r: Vec<Val> = self
            .items
            .iter()
            .filter(|(v, ia, ib)| v.exp >= t && *ia <= qb && qa <= *ib)
            .map(|(v, _, _)| *v)
            .collect();
        r.sort();
        r
    }
}

fn pick_range(rng: &mut Rng, lo: i64, hi: i64) -> (i64, i64) {
    let points = (hi as i128 - lo as i128 + 1) as u128;
    let p = |rng: &mut Rng| -> i64 {
        match rng.next() % 8 {
            0 => lo,
            1 => hi,
            _ => (lo as i128 + rng.below(points) as i128) as i64,
        }
    };
    let a = p(rng);
    let b = match rng.next() % 4 {
        0 => a,
        1 => {
            // short range
            let rest = (hi as i128 - a as i128 + 1) as u128;
            (a as i128 + rng.below(rest.min(1 + points / 16)) as i128) as i64
        }
        _ => p(rng),
    };
    (a.min(b), a.max(b))
}

fn run_history(seed: u64, lo: i64, hi: i64, steps: usize) {
    let mut rng = Rng(seed | 1);
    let mut tree: SegExpTree<i64, i32, Val> = SegExpTree::new(SegRange { min: lo, max: hi }).unwrap();
    let mut fresh: SegExpTree<i64, i32, Val> = SegExpTree::new(SegRange { min: lo, max: hi }).unwrap();
    let mut model = Model::new(lo, hi);
    assert_eq!(model.bucket(lo), 0);
    assert!(model.bucket(hi) < 32);
    if hi as i128 - lo as i128 >= 32 {
        assert!(model.bucket(hi) >= 16);
    }

    let mut time: i32 = 0;
    let mut next_id = 0;
    for _ in 0..steps {
        match rng.next() % 100 {
            0..=44 => {
                let (a, b) = pick_range(&mut rng, lo, hi);
                let exp = time - 3 + (rng.next() % 40) as i32;
                let v = Val { id: next_id, exp };
                next_id += 1;
                tree.insert_by_range(SegRange { min: a, max: b }, v);
                fresh.insert_by_range(SegRange { min: a, max: b }, v);
                model.insert(a, b, v);
            }
            45..=89 => {
                time += (rng.next() % 4) as i32;
                let (a, b) = if rng.next() % 10 == 0 { (lo, hi) } else { pick_range(&mut rng, lo, hi) };
                let expected = model.query(a, b, time);
                if rng.next() % 4 == 0 {
                    // partially consumed: a duplicate-free subset of the expected answer
                    let k = (rng.next() % 4) as usize;
                    let mut got: Vec<Val> = tree.iter_by_range(SegRange { min: a, max: b }, time).take(k).collect();
                    assert_eq!(got.len(), k.min(expected.len()));
                    got.sort();
                    for w in got.windows(2) {
                        assert_ne!(w[0], w[1]);
                    }
                    for g in &got {
                        assert!(expected.binary_search(g).is_ok());
                    }
                } else {
                    let mut got: Vec<Val> = tree.iter_by_range(SegRange { min: a, max: b }, time).collect();
                    got.sort();
                    assert_eq!(got, expected, "domain [{lo},{hi}] query [{a},{b}] t={time}");
                }
                // the twin that was never partially consumed must agree as well
                let mut got: Vec<Val> = fresh.iter_by_range(SegRange { min: a, max: b }, time).collect();
                got.sort();
                assert_eq!(got, expected);
            }
            90..=94 => {
                tree.clear();
                model.items.clear();
                // a new instance stands in for the cleared one on the twin side; the clock restarts
                fresh = SegExpTree::new(SegRange { min: lo, max: hi }).unwrap();
                time = (rng.next() % 3) as i32;
                assert_eq!(tree.iter_by_range(SegRange { min: lo, max: hi }, i32::MIN).count(), 0);
            }
            _ => {
                // whole-domain sweep, then nothing expired may be left behind
                time += 1;
                let expected = model.query(lo, hi, time);
                let mut got: Vec<Val> = tree.iter_by_range(SegRange { min: lo, max: hi }, time).collect();
                got.sort();
                assert_eq!(got, expected);
                #[cfg(feature = "verif-hooks")]
                {
                    let dump = tree.verif_dump();
                    for c in &dump.copies {
                        assert!(c.val.exp >= time);
                    }
                    // exactly the live values are left, each at every place of its mask
                    let mut ids: Vec<Val> = dump.copies.iter().map(|c| c.val).collect();
                    ids.sort();
                    ids.dedup();
                    assert_eq!(ids, expected);
                }
            }
        }
    }
}

#[test]
fn differential_small_domains_exact() {
    // at most 32 points: one bucket per point, the answer is the exact intersection
    for (i, &(lo, hi)) in [(0i64, 16i64), (0, 31), (-7, 20), (-31, 0), (100, 120), (i64::MAX - 31, i64::MAX), (i64::MIN, i64::MIN + 16)]
        .iter()
        .enumerate()
    {
        assert_eq!(Model::new(lo, hi).scale, 0);
        for s in 0..6 {
            run_history(0x9e37_79b9 * (i as u64 + 1) + s, lo, hi, 1500);
        }
    }
}

#[test]
fn differential_assorted_domains() {
    let domains: [(i64, i64); 12] = [
        (0, 32),
        (0, 128),
        (-10240, 15360),
        (-63, 0),
        (-1000, 1),
        (3, 99),
        (0, 1 << 40),
        (-(1 << 50) - 17, (1 << 49) + 5),
        (i64::MIN, i64::MAX),
        (i64::MIN, -1),
        (-1, i64::MAX),
        (i64::MAX - 1000, i64::MAX),
    ];
    for (i, &(lo, hi)) in domains.iter().enumerate() {
        for s in 0..4 {
            run_history(0xabcd_ef01_2345 * (i as u64 + 3) + s, lo, hi, 2000);
        }
    }
}

#[test]
fn construction_threshold() {
    for lo in [-40i64, -1, 0, 5, i64::MIN, i64::MAX - 40] {
        for len in 0..40i64 {
            let built = SegExpTree::<i64, i32, Val>::new(SegRange { min: lo, max: lo + len }).is_some();
            assert_eq!(built, len + 1 > 16, "lo={lo} points={}", len + 1);
        }
    }
    assert!(SegExpTree::<i64, i32, Val>::new(SegRange { min: 5, max: 4 }).is_none());
    assert!(SegExpTree::<i64, i32, Val>::new(SegRange { min: i64::MAX, max: i64::MIN }).is_none());
    assert!(SegExpTree::<i32, i32, Val>::new(SegRange { min: i32::MIN, max: i32::MAX }).is_some());
    assert!(SegExpTree::<u8, i32, Val>::new(SegRange { min: 0u8, max: 16u8 }).is_some());
    assert!(SegExpTree::<u8, i32, Val>::new(SegRange { min: 0u8, max: 15u8 }).is_none());
}

#[test]
fn exhaustive_overlap_32_buckets() {
    // every stored range against every query range, one bucket per point
    let mut tree: SegExpTree<i64, i32, Val> = SegExpTree::new(SegRange { min: 0, max: 31 }).unwrap();
    for a in 0..32i64 {
        for b in a..32 {
            tree.clear();
            tree.insert_by_range(SegRange { min: a, max: b }, Val { id: 1, exp: 10 });
            for c in 0..32i64 {
                for d in c..32 {
                    let n = tree.iter_by_range(SegRange { min: c, max: d }, 0).count();
                    let overlap = a <= d && c <= b;
                    assert_eq!(n, overlap as usize, "[{a},{b}] vs [{c},{d}]");
                }
            }
        }
    }
}

// Reference place mask: the level-by-level sweep (a place is used when it is fully covered
// and its parent is not), written independently of the library's code.
#[cfg(feature = "verif-hooks")]
fn reference_place_mask(a: u32, b: u32) -> u64 {
    let covered = |p: u32| -> bool {
        // bucket span of place p
        let depth = (p + 1).ilog2();
        let width = 32 >> depth;
        let first = (p + 1 - (1 << depth)) * width;
        a <= first && first + width - 1 <= b
    };
    let mut m = 0u64;
    for p in 0..63u32 {
        if covered(p) && (p == 0 || !covered((p - 1) / 2)) {
            m |= 1 << p;
        }
    }
    m
}

#[cfg(feature = "verif-hooks")]
#[test]
fn hooks_place_masks_tile_and_bound() {
    let mut tree: SegExpTree<i64, i32, Val> = SegExpTree::new(SegRange { min: -5, max: 26 }).unwrap();
    for a in 0..32u32 {
        for b in a..32 {
            tree.clear();
            tree.insert_by_range(SegRange { min: a as i64 - 5, max: b as i64 - 5 }, Val { id: 7, exp: 1 });
            let dump = tree.verif_dump();
            assert!(dump.places >= 63);
            let mask = reference_place_mask(a, b);
            assert!(mask.count_ones() <= 8);
            let mut seen = 0u64;
            for c in &dump.copies {
                assert_eq!(c.mask, mask);
                assert!(c.place < dump.places);
                assert_eq!(seen & (1 << c.place), 0);
                seen |= 1 << c.place;
            }
            assert_eq!(seen, mask);
        }
    }
    // a 17-point domain still has storage behind everything it can touch
    let mut small: SegExpTree<i64, i32, Val> = SegExpTree::new(SegRange { min: 0, max: 16 }).unwrap();
    small.insert_by_range(SegRange { min: 0, max: 16 }, Val { id: 1, exp: 1 });
    small.insert_by_range(SegRange { min: 16, max: 16 }, Val { id: 2, exp: 1 });
    let dump = small.verif_dump();
    assert!(dump.copies.iter().all(|c| c.place < dump.places));
    assert!(dump.places >= 48);
}
