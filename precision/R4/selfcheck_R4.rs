//! Randomised differential self-check for the pool rework (FIFO slot reuse, block-rounded
//! capacity hint, 50% growth, in-order clear). Models are BTreeMap / Vec.

use std::cell::Cell;
use std::cmp::Ordering;
use std::collections::BTreeMap;
use std::panic::{catch_unwind, AssertUnwindSafe};

use i_tree::key::array::IntoArray;
use i_tree::key::exp::KeyExpCollection;
use i_tree::key::list::KeyExpList;
use i_tree::key::tree::KeyExpTree;
use i_tree::map::list::MapList;
use i_tree::map::sort::MapCollection;
use i_tree::map::tree::MapTree;
use i_tree::set::list::SetList;
use i_tree::set::sort::{KeyValue, SetCollection};
use i_tree::set::tree::SetTree;
use i_tree::{ExpiredKey, EMPTY_REF};

struct Rng(u64);

impl Rng {
    fn next(&mut self) -> u64 {
        let mut x = self.0;
        x ^= x << 13;
        x ^= x >> 7;
        x ^= x << 17;
        self.0 = x;
        x
    }
    fn below(&mut self, n: u64) -> u64 {
        self.next() % n
    }
}

const HINTS: [usize; 7] = [0, 1, 8, 15, 16, 17, 100];

// ---------------------------------------------------------------------------------------------
// ordered map
// ---------------------------------------------------------------------------------------------

fn map_pred(model: &BTreeMap<i32, String>, probe: i32) -> Option<(i32, String)> {
    model.range(..=probe).next_back().map(|(k, v)| (*k, v.clone()))
}

fn run_map(seed: u64, hint: usize, key_space: i32, steps: usize) {
    let mut rng = Rng(seed | 1);
    let mut tree: MapTree<i32, String> = MapTree::new(hint);
    let mut list: MapList<i32, String> = MapList::new(hint);
    let mut model: BTreeMap<i32, String> = BTreeMap::new();
    // handles taken since the last deletion: (handle, key)
    let mut handles: Vec<(u32, i32)> = Vec::new();

    for step in 0..steps {
        let key = rng.below(key_space as u64) as i32 - key_space / 2;
        match rng.below(100) {
            0..=39 => {
                if !model.contains_key(&key) {
                    let val = format!("v{}_{}", key, step);
                    tree.insert(key, val.clone());
                    list.insert(key, val.clone());
                    model.insert(key, val);
                    let h = tree.first_index_less(key);
                    assert_ne!(h, EMPTY_REF);
                    handles.push((h, key));
                }
            }
            40..=64 => {
                tree.delete(key);
                list.delete(key);
                model.remove(&key);
                handles.clear();
            }
            65..=74 => {
                // delete through a predecessor handle
                let h = tree.first_index_less(key);
                let lh = list.first_index_less(key);
                match map_pred(&model, key) {
                    None => {
                        assert_eq!(h, EMPTY_REF);
                        assert_eq!(lh, EMPTY_REF);
                    }
                    Some((k, v)) => {
                        assert_eq!(tree.value_by_index(h), &v);
                        assert_eq!(list.value_by_index(lh), &v);
                        tree.delete_by_index(h);
                        list.delete_by_index(lh);
                        model.remove(&k);
                        handles.clear();
                    }
                }
            }
            75..=84 => {
                // write through a handle
                let h = tree.first_index_less_by(|k| k.cmp(&key));
                let lh = list.first_index_less_by(|k| k.cmp(&key));
                assert_eq!(h, tree.first_index_less(key));
                assert_eq!(lh, list.first_index_less(key));
                match map_pred(&model, key) {
                    None => {
                        assert_eq!(h, EMPTY_REF);
                        assert_eq!(lh, EMPTY_REF);
                    }
                    Some((k, v)) => {
                        assert_eq!(tree.value_by_index(h), &v);
                        let nv = format!("w{}_{}", k, step);
                        *tree.value_by_index_mut(h) = nv.clone();
                        *list.value_by_index_mut(lh) = nv.clone();
                        model.insert(k, nv);
                    }
                }
            }
            85..=86 => {
                tree.clear();
                list.clear();
                model.clear();
                handles.clear();
            }
            _ => {}
        }

        assert_eq!(tree.is_empty(), model.is_empty());
        assert_eq!(list.is_empty(), model.is_empty());
        let probe = rng.below(key_space as u64 + 4) as i32 - key_space / 2 - 2;
        assert_eq!(tree.get_value(probe), model.get(&probe));
        assert_eq!(list.get_value(probe), model.get(&probe));

        // C17: handles stay valid across insertions
        for &(h, k) in handles.iter() {
            assert_eq!(tree.value_by_index(h), model.get(&k).unwrap());
        }

        if step % 64 == 0 {
            for k in -key_space / 2 - 1..=key_space / 2 + 1 {
                assert_eq!(tree.get_value(k), model.get(&k));
                let h = tree.first_index_less(k);
                match map_pred(&model, k) {
                    None => assert_eq!(h, EMPTY_REF),
                    Some((_, v)) => assert_eq!(tree.value_by_index(h), &v),
                }
            }
        }
    }
}

#[test]
fn map_matches_btreemap() {
    for (i, &hint) in HINTS.iter().enumerate() {
        run_map(0x9E3779B97F4A7C15 ^ i as u64, hint, 24, 4000);
        run_map(0xD1B54A32D192ED03 ^ i as u64, hint, 400, 6000);
    }
}

#[test]
fn map_grows_far_beyond_hint_and_recycles_after_clear() {
    let mut tree: MapTree<i32, i64> = MapTree::new(1);
    for round in 0..3 {
        for k in 0..5000 {
            tree.insert(k, (k as i64) * 3 + round);
        }
        for k in 0..5000 {
            assert_eq!(tree.get_value(k), Some(&((k as i64) * 3 + round)));
        }
        for k in (0..5000).step_by(2) {
            tree.delete(k);
        }
        for k in 0..5000 {
            let expect = if k % 2 == 0 { None } else { Some((k as i64) * 3 + round) };
            assert_eq!(tree.get_value(k).copied(), expect);
        }
        tree.clear();
        assert!(tree.is_empty());
        assert_eq!(tree.get_value(1), None);
        assert_eq!(tree.first_index_less(i32::MAX), EMPTY_REF);
    }
}

// ---------------------------------------------------------------------------------------------
// ordered set
// ---------------------------------------------------------------------------------------------

#[derive(Clone, Default, Debug, PartialEq)]
struct Item {
    key: i32,
    payload: String,
}

impl KeyValue<i32> for Item {
    fn key(&self) -> &i32 {
        &self.key
    }
}

fn run_set(seed: u64, hint: usize, key_space: i32, steps: usize) {
    let mut rng = Rng(seed | 1);
    let mut tree: SetTree<i32, Item> = SetTree::new(hint);
    let mut list: SetList<Item> = SetList::new(hint);
    let mut model: BTreeMap<i32, Item> = BTreeMap::new();
    let mut handles: Vec<(u32, i32)> = Vec::new();

    for step in 0..steps {
        let key = rng.below(key_space as u64) as i32 - key_space / 2;
        match rng.below(100) {
            0..=39 => {
                if !model.contains_key(&key) {
                    let item = Item { key, payload: format!("p{}_{}", key, step) };
                    tree.insert(item.clone());
                    list.insert(item.clone());
                    model.insert(key, item);
                    let h = tree.first_index_less(&key);
                    assert_ne!(h, EMPTY_REF);
                    handles.push((h, key));
                }
            }
            40..=64 => {
                tree.delete(&key);
                list.delete(&key);
                model.remove(&key);
                handles.clear();
            }
            65..=74 => {
                let h = tree.first_index_less(&key);
                let lh = list.first_index_less(&key);
                assert_eq!(h, tree.first_index_less_by(|k| k.cmp(&key)));
                assert_eq!(lh, list.first_index_less_by(|k| k.cmp(&key)));
                match model.range(..=key).next_back().map(|(k, v)| (*k, v.clone())) {
                    None => {
                        assert_eq!(h, EMPTY_REF);
                        assert_eq!(lh, EMPTY_REF);
                    }
                    Some((k, v)) => {
                        assert_eq!(tree.value_by_index(h), &v);
                        assert_eq!(list.value_by_index(lh), &v);
                        if rng.below(2) == 0 {
                            tree.delete_by_index(h);
                            list.delete_by_index(lh);
                            model.remove(&k);
                            handles.clear();
                        } else {
                            let p = format!("q{}_{}", k, step);
                            tree.value_by_index_mut(h).payload = p.clone();
                            list.value_by_index_mut(lh).payload = p.clone();
                            model.get_mut(&k).unwrap().payload = p;
                        }
                    }
                }
            }
            75..=76 => {
                tree.clear();
                list.clear();
                model.clear();
                handles.clear();
            }
            _ => {}
        }

        assert_eq!(tree.is_empty(), model.is_empty());
        assert_eq!(list.is_empty(), model.is_empty());
        let probe = rng.below(key_space as u64 + 4) as i32 - key_space / 2 - 2;
        assert_eq!(tree.get_value(&probe), model.get(&probe));
        assert_eq!(list.get_value(&probe), model.get(&probe));

        for &(h, k) in handles.iter() {
            assert_eq!(tree.value_by_index(h), model.get(&k).unwrap());
        }

        if step % 32 == 0 && !model.is_empty() {
            // forward walk
            let first = *model.keys().next().unwrap();
            let mut h = tree.first_index_less(&first);
            let mut lh = list.first_index_less(&first);
            for (_, v) in model.iter() {
                assert_ne!(h, EMPTY_REF);
                assert_ne!(lh, EMPTY_REF);
                assert_eq!(tree.value_by_index(h), v);
                assert_eq!(list.value_by_index(lh), v);
                h = tree.index_after(h);
                lh = list.index_after(lh);
            }
            assert_eq!(h, EMPTY_REF);
            assert_eq!(lh, EMPTY_REF);
            // backward walk
            let mut h = tree.first_index_less(&i32::MAX);
            let mut lh = list.first_index_less(&i32::MAX);
            for (_, v) in model.iter().rev() {
                assert_ne!(h, EMPTY_REF);
                assert_ne!(lh, EMPTY_REF);
                assert_eq!(tree.value_by_index(h), v);
                assert_eq!(list.value_by_index(lh), v);
                h = tree.index_before(h);
                lh = list.index_before(lh);
            }
            assert_eq!(h, EMPTY_REF);
            assert_eq!(lh, EMPTY_REF);
        }
    }
}

#[test]
fn set_matches_btreemap() {
    for (i, &hint) in HINTS.iter().enumerate() {
        run_set(0xA0761D6478BD642F ^ i as u64, hint, 24, 4000);
        run_set(0xE7037ED1A0B428DB ^ i as u64, hint, 400, 6000);
    }
}

// ---------------------------------------------------------------------------------------------
// expiring-key tree / list
// ---------------------------------------------------------------------------------------------

thread_local! {
    static NOW: Cell<i32> = const { Cell::new(0) };
    static PROBE: Cell<u32> = const { Cell::new(0) };
    static WATCH: Cell<bool> = const { Cell::new(false) };
}

#[derive(Clone, Copy, Debug)]
struct XKey {
    key: i32,
    exp: i32,
    id: u32,
}

impl XKey {
    fn check_live(&self) {
        if WATCH.with(|w| w.get()) && self.id != PROBE.with(|p| p.get()) {
            let now = NOW.with(|n| n.get());
            assert!(self.exp > now, "comparison saw expired key {:?} at time {}", self, now);
        }
    }
}

impl Ord for XKey {
    fn cmp(&self, other: &Self) -> Ordering {
        self.check_live();
        other.check_live();
        self.key.cmp(&other.key)
    }
}
impl PartialOrd for XKey {
    fn partial_cmp(&self, other: &Self) -> Option<Ordering> {
        Some(self.cmp(other))
    }
}
impl PartialEq for XKey {
    fn eq(&self, other: &Self) -> bool {
        self.cmp(other) == Ordering::Equal
    }
}
impl Eq for XKey {}

impl ExpiredKey<i32> for XKey {
    fn expiration(&self) -> i32 {
        self.exp
    }
}

struct XModel {
    // (key, exp, val)
    items: Vec<(i32, i32, i64)>,
}

impl XModel {
    fn live(&self, t: i32) -> Vec<(i32, i64)> {
        let mut v: Vec<(i32, i64)> =
            self.items.iter().filter(|e| e.1 > t).map(|e| (e.0, e.2)).collect();
        v.sort();
        v
    }
    fn has_live(&self, t: i32, key: i32) -> bool {
        self.items.iter().any(|e| e.0 == key && e.1 > t)
    }
    fn get(&self, t: i32, key: i32) -> Option<i64> {
        self.items.iter().find(|e| e.0 == key && e.1 > t).map(|e| e.2)
    }
    fn less(&self, t: i32, key: i32, or_equal: bool, default: i64) -> i64 {
        self.live(t)
            .iter()
            .rev()
            .find(|e| if or_equal { e.0 <= key } else { e.0 < key })
            .map(|e| e.1)
            .unwrap_or(default)
    }
    fn prune(&mut self, t: i32) {
        self.items.retain(|e| e.1 > t);
    }
}

fn run_key(seed: u64, hint: usize, key_space: i32, steps: usize, max_life: i32) {
    let mut rng = Rng(seed | 1);
    let mut tree: KeyExpTree<XKey, i32, i64> = KeyExpTree::new(hint);
    let mut list: KeyExpList<XKey, i32, i64> = KeyExpList::new(hint);
    let mut model = XModel { items: Vec::new() };
    let mut time = 0i32;
    let mut next_id = 1u32;
    WATCH.with(|w| w.set(true));

    let probe_key = |key: i32, id: &mut u32| -> XKey {
        let k = XKey { key, exp: i32::MAX, id: *id };
        PROBE.with(|p| p.set(*id));
        *id += 1;
        k
    };

    for step in 0..steps {
        if rng.below(3) == 0 {
            time += rng.below(4) as i32;
        }
        NOW.with(|n| n.set(time));
        let key = rng.below(key_space as u64) as i32 - key_space / 2;
        let default = -7i64;

        match rng.below(100) {
            0..=44 => {
                if !model.has_live(time, key) {
                    let exp = time + rng.below(max_life as u64 + 1) as i32;
                    let val = step as i64 * 1000 + key as i64;
                    let k = XKey { key, exp, id: next_id };
                    PROBE.with(|p| p.set(next_id));
                    next_id += 1;
                    tree.insert(k, val, time);
                    list.insert(k, val, time);
                    // an equal key that is already dead can never be seen again
                    model.items.retain(|e| e.0 != key);
                    model.items.push((key, exp, val));
                }
            }
            45..=59 => {
                let k = probe_key(key, &mut next_id);
                let expect = model.get(time, key);
                assert_eq!(tree.get_value(time, k), expect);
                assert_eq!(list.get_value(time, k), expect);
            }
            60..=69 => {
                let k = probe_key(key, &mut next_id);
                let expect = model.less(time, key, false, default);
                assert_eq!(tree.first_less(time, default, k), expect);
                assert_eq!(list.first_less(time, default, k), expect);
            }
            70..=79 => {
                let k = probe_key(key, &mut next_id);
                let expect = model.less(time, key, true, default);
                assert_eq!(tree.first_less_or_equal(time, default, k), expect);
                assert_eq!(list.first_less_or_equal(time, default, k), expect);
            }
            80..=89 => {
                PROBE.with(|p| p.set(0));
                let expect = model.less(time, key, true, default);
                let now = time;
                let f = |k: XKey| {
                    assert!(k.exp > now, "comparator saw expired key");
                    k.key.cmp(&key)
                };
                assert_eq!(tree.first_less_or_equal_by(time, default, f), expect);
                assert_eq!(list.first_less_or_equal_by(time, default, f), expect);
            }
            90..=91 => {
                tree.clear();
                list.clear();
                model.items.clear();
                assert!(tree.is_empty());
                assert!(list.is_empty());
                if rng.below(2) == 0 {
                    // the clock may restart after a clear
                    time = 0;
                    NOW.with(|n| n.set(time));
                }
            }
            92..=94 => {
                // ordered export: rebuild both collections from the model, export, compare
                let mut t2: KeyExpTree<XKey, i32, i64> = KeyExpTree::new(hint);
                let mut l2: KeyExpList<XKey, i32, i64> = KeyExpList::new(hint);
                WATCH.with(|w| w.set(false));
                // insertion at the items' own start is not known any more; insert at a time
                // at which all of them are insertable, in model order
                let t0 = model.items.iter().map(|e| e.1).min().unwrap_or(0).min(time);
                for e in model.items.iter() {
                    let k = XKey { key: e.0, exp: e.1, id: 0 };
                    t2.insert(k, e.2, t0);
                    l2.insert(k, e.2, t0);
                }
                WATCH.with(|w| w.set(true));
                PROBE.with(|p| p.set(0));
                let expect: Vec<i64> = model.live(time).iter().map(|e| e.1).collect();
                let count = model.items.len();
                let tv = t2.into_ordered_vec(time);
                assert_eq!(tv, expect);
                assert!(tv.capacity() <= 2 * count + 16, "C19: {} for {}", tv.capacity(), count);
                assert_eq!(l2.into_ordered_vec(time), expect);
            }
            _ => {}
        }
        if step % 97 == 0 {
            model.prune(time);
        }
    }

    // final export of the long-lived instances
    PROBE.with(|p| p.set(0));
    let expect: Vec<i64> = model.live(time).iter().map(|e| e.1).collect();
    assert_eq!(tree.into_ordered_vec(time), expect);
    assert_eq!(list.into_ordered_vec(time), expect);
    WATCH.with(|w| w.set(false));
}

#[test]
fn key_tree_matches_model() {
    for (i, &hint) in HINTS.iter().enumerate() {
        run_key(0x2545F4914F6CDD1D ^ i as u64, hint, 16, 5000, 6);
        run_key(0x8BB84B93962EACC9 ^ i as u64, hint, 300, 8000, 40);
        run_key(0x4CF5AD432745937F ^ i as u64, hint, 300, 8000, 400);
    }
}

#[test]
fn key_tree_export_after_heavy_churn() {
    // many lazily removed entries, slot reuse and growth before the export
    let mut rng = Rng(0x1234567);
    for &hint in HINTS.iter() {
        let mut tree: KeyExpTree<XKey, i32, i64> = KeyExpTree::new(hint);
        let mut model = XModel { items: Vec::new() };
        let mut time = 0;
        for step in 0..3000 {
            if step % 5 == 0 {
                time += 1;
            }
            let key = rng.below(2000) as i32;
            if !model.has_live(time, key) {
                let exp = time + rng.below(60) as i32;
                tree.insert(XKey { key, exp, id: 0 }, step, time);
                model.items.retain(|e| e.0 != key);
                model.items.push((key, exp, step));
            }
            if step % 7 == 0 {
                let p = rng.below(2000) as i32;
                assert_eq!(
                    tree.first_less_or_equal(time, -1, XKey { key: p, exp: i32::MAX, id: 0 }),
                    model.less(time, p, true, -1)
                );
            }
        }
        let expect: Vec<i64> = model.live(time).iter().map(|e| e.1).collect();
        let v = tree.into_ordered_vec(time);
        assert_eq!(v, expect);
    }
}

// ---------------------------------------------------------------------------------------------
// panicking callbacks (C18)
// ---------------------------------------------------------------------------------------------

thread_local! {
    static FUSE: Cell<i64> = const { Cell::new(-1) };
}

fn burn() {
    FUSE.with(|f| {
        let v = f.get();
        if v == 0 {
            f.set(-1);
            panic!("fuse");
        }
        if v > 0 {
            f.set(v - 1);
        }
    });
}

#[derive(Clone, Copy, Debug, Default)]
struct PKey(i32);

impl Ord for PKey {
    fn cmp(&self, other: &Self) -> Ordering {
        burn();
        self.0.cmp(&other.0)
    }
}
impl PartialOrd for PKey {
    fn partial_cmp(&self, other: &Self) -> Option<Ordering> {
        Some(self.cmp(other))
    }
}
impl PartialEq for PKey {
    fn eq(&self, other: &Self) -> bool {
        self.0 == other.0
    }
}
impl Eq for PKey {}

#[test]
fn map_survives_panicking_comparison() {
    let prev = std::panic::take_hook();
    std::panic::set_hook(Box::new(|_| {}));
    let mut rng = Rng(77);
    let mut tree: MapTree<PKey, i32> = MapTree::new(0);
    let mut model: BTreeMap<i32, i32> = BTreeMap::new();
    for step in 0..4000 {
        let key = rng.below(200) as i32;
        let insert = !model.contains_key(&key) && rng.below(3) != 0;
        FUSE.with(|f| f.set(rng.below(12) as i64));
        let r = catch_unwind(AssertUnwindSafe(|| {
            if insert {
                tree.insert(PKey(key), step);
            } else {
                tree.delete(PKey(key));
            }
        }));
        FUSE.with(|f| f.set(-1));
        if r.is_ok() {
            if insert {
                model.insert(key, step);
            } else {
                model.remove(&key);
            }
        } else {
            // before or after
            let got = tree.get_value(PKey(key)).copied();
            if insert {
                assert!(got.is_none() || got == Some(step));
                if got.is_some() {
                    model.insert(key, step);
                }
            } else {
                assert!(got.is_none() || got == model.get(&key).copied());
                if got.is_none() {
                    model.remove(&key);
                }
            }
        }
        if step % 50 == 0 {
            for k in 0..200 {
                assert_eq!(tree.get_value(PKey(k)), model.get(&k));
            }
        }
    }
    std::panic::set_hook(prev);
}

#[derive(Clone, Copy, Debug)]
struct PXKey {
    key: i32,
    exp: i32,
}
impl Ord for PXKey {
    fn cmp(&self, other: &Self) -> Ordering {
        burn();
        self.key.cmp(&other.key)
    }
}
impl PartialOrd for PXKey {
    fn partial_cmp(&self, other: &Self) -> Option<Ordering> {
        Some(self.cmp(other))
    }
}
impl PartialEq for PXKey {
    fn eq(&self, other: &Self) -> bool {
        self.key == other.key
    }
}
impl Eq for PXKey {}
impl ExpiredKey<i32> for PXKey {
    fn expiration(&self) -> i32 {
        burn();
        self.exp
    }
}

#[test]
fn key_tree_survives_panicking_callbacks() {
    let prev = std::panic::take_hook();
    std::panic::set_hook(Box::new(|_| {}));
    let mut rng = Rng(4242);
    let mut tree: KeyExpTree<PXKey, i32, i64> = KeyExpTree::new(0);
    let mut model = XModel { items: Vec::new() };
    let mut time = 0;
    for step in 0..6000i64 {
        if rng.below(4) == 0 {
            time += 1;
        }
        let key = rng.below(120) as i32;
        if !model.has_live(time, key) {
            let exp = time + rng.below(30) as i32;
            FUSE.with(|f| f.set(rng.below(40) as i64));
            let r = catch_unwind(AssertUnwindSafe(|| {
                tree.insert(PXKey { key, exp }, step, time);
            }));
            FUSE.with(|f| f.set(-1));
            let got = tree.get_value(time, PXKey { key, exp: i32::MAX });
            if r.is_ok() {
                model.items.retain(|e| e.0 != key);
                model.items.push((key, exp, step));
                assert_eq!(got, model.get(time, key));
            } else if got.is_some() {
                assert_eq!(got, Some(step));
                model.items.retain(|e| e.0 != key);
                model.items.push((key, exp, step));
            } else if exp > time {
                // not inserted: contents are those before the operation
                assert_eq!(model.get(time, key), None);
            } else {
                // exp == time: invisible either way; assume worst case "inserted"
                model.items.retain(|e| e.0 != key);
                model.items.push((key, exp, step));
            }
        } else {
            FUSE.with(|f| f.set(rng.below(40) as i64));
            let expect = model.less(time, key, true, -1);
            let r = catch_unwind(AssertUnwindSafe(|| {
                tree.first_less_or_equal(time, -1, PXKey { key, exp: i32::MAX })
            }));
            FUSE.with(|f| f.set(-1));
            if let Ok(v) = r {
                assert_eq!(v, expect);
            }
        }
        if step % 40 == 0 {
            for k in 0..120 {
                assert_eq!(tree.get_value(time, PXKey { key: k, exp: i32::MAX }), model.get(time, k));
            }
        }
    }
    let expect: Vec<i64> = model.live(time).iter().map(|e| e.1).collect();
    assert_eq!(tree.into_ordered_vec(time), expect);
    std::panic::set_hook(prev);
}

// ---------------------------------------------------------------------------------------------
// structural checks through the read-only hooks
// ---------------------------------------------------------------------------------------------

#[cfg(feature = "verif-hooks")]
mod hooks {
    use super::*;
    use i_tree::verif::VerifSnapshot;

    /// red-black + BST + link consistency + slot partition; returns the number of entries
    fn check<T: Clone + Ord + std::fmt::Debug>(s: &VerifSnapshot<T>) -> usize {
        let n = s.slots.len();
        let mut state = vec![0u8; n]; // 0 unknown, 1 tree, 2 free
        for &f in s.free.iter() {
            assert!(f != 0 && (f as usize) < n, "free list holds {}", f);
            assert_eq!(state[f as usize], 0, "slot {} free twice", f);
            state[f as usize] = 2;
        }
        assert!(s.free_capacity >= s.free.len());
        let mut keys = Vec::new();
        fn walk<T: Clone>(
            s: &VerifSnapshot<T>,
            i: u32,
            parent: u32,
            state: &mut [u8],
            keys: &mut Vec<T>,
            depth: usize,
            max_depth: &mut usize,
        ) -> usize {
            if i == EMPTY_REF {
                return 1;
            }
            assert_ne!(i, 0, "sentinel linked into the tree");
            let slot = &s.slots[i as usize];
            assert_eq!(state[i as usize], 0, "slot {} used twice / free and used", i);
            state[i as usize] = 1;
            assert_eq!(slot.parent, parent);
            if slot.red {
                for c in [slot.left, slot.right] {
                    if c != EMPTY_REF {
                        assert!(!s.slots[c as usize].red, "red-red");
                    }
                }
            }
            *max_depth = (*max_depth).max(depth);
            let l = walk(s, slot.left, i, state, keys, depth + 1, max_depth);
            keys.push(slot.payload.clone());
            let r = walk(s, slot.right, i, state, keys, depth + 1, max_depth);
            assert_eq!(l, r, "black heights differ");
            l + if slot.red { 0 } else { 1 }
        }
        let mut max_depth = 0;
        walk(s, s.root, EMPTY_REF, &mut state, &mut keys, 1, &mut max_depth);
        for w in keys.windows(2) {
            assert!(w[0] < w[1], "not in key order: {:?}", w);
        }
        for (i, st) in state.iter().enumerate().skip(1) {
            assert_ne!(*st, 0, "slot {} lost", i);
        }
        let count = keys.len();
        assert_eq!(count + s.free.len() + 1, n);
        if count > 0 {
            let bound = 2.0 * ((count + 1) as f64).log2() + 1.0;
            assert!(max_depth as f64 <= bound);
        }
        count
    }

    fn same<T: PartialEq + std::fmt::Debug>(a: &VerifSnapshot<T>, b: &VerifSnapshot<T>) {
        assert_eq!(a.root, b.root);
        assert_eq!(a.free, b.free);
        assert_eq!(a.free_capacity, b.free_capacity);
        assert_eq!(a.slots.len(), b.slots.len());
        for (x, y) in a.slots.iter().zip(b.slots.iter()) {
            assert_eq!((x.parent, x.left, x.right, x.red), (y.parent, y.left, y.right, y.red));
            assert_eq!(x.payload, y.payload);
        }
    }

    #[test]
    fn map_structure_and_storage_bound() {
        let mut rng = Rng(991);
        for &hint in HINTS.iter() {
            let mut tree: MapTree<i32, i32> = MapTree::new(hint);
            let mut model: BTreeMap<i32, i32> = BTreeMap::new();
            let mut peak = 0usize;
            let s0 = tree.verif_snapshot(|k, _| *k);
            assert!(s0.slots.len() <= hint + 16);
            for step in 0..6000 {
                let key = rng.below(700) as i32;
                let phase = (step / 1000) % 2;
                let ins = if phase == 0 { rng.below(4) != 0 } else { rng.below(4) == 0 };
                if ins {
                    if !model.contains_key(&key) {
                        tree.insert(key, step);
                        model.insert(key, step);
                    }
                } else {
                    tree.delete(key);
                    model.remove(&key);
                }
                if step == 3500 {
                    tree.clear();
                    model.clear();
                    let s = tree.verif_snapshot(|k, _| *k);
                    assert_eq!(s.root, EMPTY_REF);
                    assert_eq!(s.free.len() + 1, s.slots.len());
                }
                peak = peak.max(model.len());
                if step % 25 == 0 {
                    let s = tree.verif_snapshot(|k, _| *k);
                    assert_eq!(check(&s), model.len());
                    assert!(s.slots.len() <= 2 * peak + hint + 64, "{} {} {}", s.slots.len(), peak, hint);
                    let c = tree.verif_clone();
                    same(&s, &c.verif_snapshot(|k, _| *k));
                }
            }
        }
    }

    #[test]
    fn set_structure() {
        let mut rng = Rng(55);
        for &hint in HINTS.iter() {
            let mut tree: SetTree<i32, i32> = SetTree::new(hint);
            let mut model: BTreeMap<i32, i32> = BTreeMap::new();
            for step in 0..4000 {
                let key = rng.below(300) as i32;
                if rng.below(5) < 3 {
                    if !model.contains_key(&key) {
                        tree.insert(key);
                        model.insert(key, key);
                    }
                } else {
                    tree.delete(&key);
                    model.remove(&key);
                }
                if step % 1300 == 1299 {
                    tree.clear();
                    model.clear();
                }
                if step % 20 == 0 {
                    let s = tree.verif_snapshot(|v| *v);
                    assert_eq!(check(&s), model.len());
                    same(&s, &tree.verif_clone().verif_snapshot(|v| *v));
                }
            }
        }
    }

    #[test]
    fn key_tree_structure_and_fifo_reuse() {
        let mut rng = Rng(31337);
        for &hint in HINTS.iter() {
            let mut tree: KeyExpTree<XKey, i32, i64> = KeyExpTree::new(hint);
            let mut model = XModel { items: Vec::new() };
            let mut time = 0;
            for step in 0..5000 {
                if step % 4 == 0 {
                    time += 1;
                }
                let key = rng.below(500) as i32;
                if !model.has_live(time, key) {
                    let exp = time + rng.below(50) as i32;
                    let before = tree.verif_snapshot(|k, _| k.key);
                    tree.insert(XKey { key, exp, id: 0 }, step, time);
                    let after = tree.verif_snapshot(|k, _| k.key);
                    // the slot taken is the front of the queue as it was right before the
                    // node was linked in (lazy removals during the descent only append)
                    if before.free.len() > 0 {
                        assert!(!after.free.contains(&before.free[0]));
                    }
                    model.items.retain(|e| e.0 != key);
                    model.items.push((key, exp, step));
                }
                if step % 1700 == 1699 {
                    tree.clear();
                    model.items.clear();
                }
                if step % 20 == 0 {
                    let s = tree.verif_snapshot(|k, _| k.key);
                    check(&s);
                    same(&s, &tree.verif_clone().verif_snapshot(|k, _| k.key));
                }
            }
        }
    }
}
