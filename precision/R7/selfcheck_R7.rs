//! Randomized differential self-check of the sorted-list collections against simple models
//! (Vec / BTreeMap) and against their tree twins.

use i_tree::key::array::IntoArray;
use i_tree::key::exp::KeyExpCollection;
use i_tree::key::list::KeyExpList;
use i_tree::key::tree::KeyExpTree;
use i_tree::map::list::MapList;
use i_tree::map::sort::MapCollection;
use i_tree::map::tree::MapTree;
use i_tree::set::list::SetList;
use i_tree::set::sort::{KeyValue, SetCollection};
use i_tree::set::tree::SetTree;
use i_tree::{EMPTY_REF, ExpiredKey};
use std::cell::Cell;
use std::cmp::Ordering;
use std::collections::BTreeMap;
use std::panic::{AssertUnwindSafe, catch_unwind};

struct Rng(u64);

impl Rng {
    fn next(&mut self) -> u64 {
        self.0 ^= self.0 << 13;
        self.0 ^= self.0 >> 7;
        self.0 ^= self.0 << 17;
        self.0
    }
    fn below(&mut self, n: u64) -> u64 {
        self.next() % n
    }
    fn range(&mut self, lo: i32, hi: i32) -> i32 {
        lo + self.below((hi - lo + 1) as u64) as i32
    }
}

// ---------------------------------------------------------------------------------------------
// expiring-key list
// ---------------------------------------------------------------------------------------------

thread_local! {
    /// current operation time; -1 = checks off
    static NOW: Cell<i32> = const { Cell::new(-1) };
    /// id of the probe / new key of the running operation
    static ALLOWED: Cell<u32> = const { Cell::new(0) };
    /// user-code calls left until an injected panic; 0 = off
    static FUSE: Cell<u32> = const { Cell::new(0) };
    static USER_CALLS: Cell<u32> = const { Cell::new(0) };
}

fn user_call() {
    USER_CALLS.with(|c| c.set(c.get() + 1));
    FUSE.with(|f| {
        let v = f.get();
        if v > 0 {
            f.set(v - 1);
            if v == 1 {
                panic!("injected");
            }
        }
    });
}

#[derive(Debug, Clone, Copy)]
struct XKey {
    k: i32,
    exp: i32,
    id: u32,
}

impl XKey {
    fn check_live(&self) {
        let now = NOW.with(|n| n.get());
        if now >= 0 {
            let allowed = ALLOWED.with(|a| a.get());
            assert!(
                self.id == allowed || self.exp > now,
                "comparison touched expired key {:?} at time {}",
                self,
                now
            );
        }
    }
}

impl Ord for XKey {
    fn cmp(&self, other: &Self) -> Ordering {
        user_call();
        self.check_live();
        other.check_live();
        self.k.cmp(&other.k)
    }
}
impl PartialOrd for XKey {
    fn partial_cmp(&self, other: &Self) -> Option<Ordering> {
        Some(self.cmp(other))
    }
}
impl PartialEq for XKey {
    fn eq(&self, other: &Self) -> bool {
        self.cmp(other) == Ordering::Equal
    }
}
impl Eq for XKey {}

impl ExpiredKey<i32> for XKey {
    fn expiration(&self) -> i32 {
        user_call();
        self.exp
    }
}

#[derive(Clone, Default)]
struct ExpModel {
    /// (key, exp, val), at most one live entry per key
    items: Vec<(i32, i32, i32)>,
}

impl ExpModel {
    fn live(&self, t: i32) -> Vec<(i32, i32, i32)> {
        let mut v: Vec<_> = self.items.iter().copied().filter(|e| e.1 > t).collect();
        v.sort();
        v
    }
    fn has_live(&self, k: i32, t: i32) -> bool {
        self.items.iter().any(|e| e.0 == k && e.1 > t)
    }
    fn insert(&mut self, k: i32, exp: i32, val: i32, t: i32) {
        // entries that are over can never be seen again
        self.items.retain(|e| e.1 > t);
        self.items.push((k, exp, val));
    }
    fn get(&self, k: i32, t: i32) -> Option<i32> {
        self.live(t).iter().find(|e| e.0 == k).map(|e| e.2)
    }
    fn less(&self, k: i32, t: i32, default: i32) -> i32 {
        self.live(t).iter().rev().find(|e| e.0 < k).map(|e| e.2).unwrap_or(default)
    }
    fn less_eq(&self, k: i32, t: i32, default: i32) -> i32 {
        self.live(t).iter().rev().find(|e| e.0 <= k).map(|e| e.2).unwrap_or(default)
    }
}

fn probe(k: i32, id: &mut u32) -> XKey {
    *id += 1;
    ALLOWED.with(|a| a.set(*id));
    XKey { k, exp: -100, id: *id }
}

/// all live entries of `list` at time `t`, found through queries only
fn observe(list: &mut KeyExpList<XKey, i32, i32>, t: i32, lo: i32, hi: i32, id: &mut u32) -> Vec<(i32, i32)> {
    let mut out = Vec::new();
    for k in lo..=hi {
        let p = probe(k, id);
        if let Some(v) = list.get_value(t, p) {
            out.push((k, v));
        }
    }
    out
}

#[test]
fn expiring_list_matches_model_and_tree() {
    let mut rng = Rng(0x9E3779B97F4A7C15);
    let mut id = 0u32;
    for round in 0..300 {
        let cap = rng.below(6) as usize;
        let mut list: KeyExpList<XKey, i32, i32> = KeyExpList::new(cap);
        let mut tree: KeyExpTree<XKey, i32, i32> = KeyExpTree::new(cap);
        let mut model = ExpModel::default();
        let key_span = if round % 3 == 0 { 8 } else { 40 };
        let mut t = 0i32;
        NOW.with(|n| n.set(t));
        for _ in 0..400 {
            if rng.below(3) == 0 {
                t += rng.range(0, 3);
            }
            NOW.with(|n| n.set(t));
            match rng.below(100) {
                0..=39 => {
                    let k = rng.range(0, key_span);
                    if !model.has_live(k, t) {
                        // exp == t (over at once) is inside the contract
                        let exp = if rng.below(8) == 0 { t } else { t + rng.range(1, 12) };
                        let val = rng.range(0, 1_000_000);
                        id += 1;
                        ALLOWED.with(|a| a.set(id));
                        let key = XKey { k, exp, id };
                        list.insert(key, val, t);
                        tree.insert(key, val, t);
                        model.insert(k, exp, val, t);
                    }
                }
                40..=54 => {
                    let k = rng.range(-1, key_span + 1);
                    let p = probe(k, &mut id);
                    let expect = model.get(k, t);
                    assert_eq!(list.get_value(t, p), expect);
                    assert_eq!(tree.get_value(t, p), expect);
                }
                55..=69 => {
                    let k = rng.range(-1, key_span + 1);
                    let p = probe(k, &mut id);
                    let expect = model.less(k, t, -7);
                    assert_eq!(list.first_less(t, -7, p), expect);
                    assert_eq!(tree.first_less(t, -7, p), expect);
                }
                70..=82 => {
                    let k = rng.range(-1, key_span + 1);
                    let p = probe(k, &mut id);
                    let expect = model.less_eq(k, t, -7);
                    assert_eq!(list.first_less_or_equal(t, -7, p), expect);
                    assert_eq!(tree.first_less_or_equal(t, -7, p), expect);
                }
                83..=95 => {
                    let k = rng.range(-1, key_span + 1);
                    ALLOWED.with(|a| a.set(0));
                    let expect = model.less_eq(k, t, -7);
                    let f = |s: XKey| {
                        s.check_live();
                        s.k.cmp(&k)
                    };
                    assert_eq!(list.first_less_or_equal_by(t, -7, f), expect);
                    assert_eq!(tree.first_less_or_equal_by(t, -7, f), expect);
                }
                96..=97 => {
                    list.clear();
                    tree.clear();
                    model = ExpModel::default();
                    assert!(list.is_empty());
                    // the clock may restart after a clear
                    t = rng.range(0, t.max(0));
                    NOW.with(|n| n.set(t));
                    let p = probe(3, &mut id);
                    assert_eq!(list.get_value(t, p), None);
                    assert_eq!(list.first_less_or_equal(t, -7, p), -7);
                }
                _ => {
                    // every live entry is found, nothing else
                    let seen = observe(&mut list, t, -1, key_span + 1, &mut id);
                    let expect: Vec<(i32, i32)> = model.live(t).iter().map(|e| (e.0, e.2)).collect();
                    assert_eq!(seen, expect);
                    if model.live(t).is_empty() {
                        // nothing live: emptiness may or may not be reported, but a non-empty
                        // model must never be reported empty
                    } else {
                        assert!(!list.is_empty());
                    }
                }
            }
        }
        // export: exactly the live values in key order, same as the tree
        let expect: Vec<i32> = model.live(t).iter().map(|e| e.2).collect();
        ALLOWED.with(|a| a.set(0));
        let lv = list.into_ordered_vec(t);
        let tv = tree.into_ordered_vec(t);
        assert_eq!(lv, expect);
        assert_eq!(tv, expect);
    }
    NOW.with(|n| n.set(-1));
}

#[test]
fn expiring_list_survives_panicking_user_code() {
    let mut rng = Rng(0xD1B54A32D192ED03);
    let mut id = 0u32;
    let mut injected = 0;
    for _ in 0..400 {
        let mut list: KeyExpList<XKey, i32, i32> = KeyExpList::new(rng.below(4) as usize);
        let mut model = ExpModel::default();
        let mut t = 0i32;
        for _ in 0..120 {
            if rng.below(3) == 0 {
                t += rng.range(0, 4);
            }
            NOW.with(|n| n.set(t));
            let k = rng.range(0, 14);
            let arm = rng.below(4) != 0;
            let fuse = if arm { 1 + rng.below(12) as u32 } else { 0 };
            let before = model.clone();
            let mut after = model.clone();
            let op = rng.below(5);
            let mut is_insert = false;
            let mut key = probe(k, &mut id);
            let val = rng.range(0, 1_000_000);
            if op == 0 || op == 1 {
                if model.has_live(k, t) {
                    continue;
                }
                is_insert = true;
                key.exp = if rng.below(8) == 0 { t } else { t + rng.range(1, 9) };
                after.insert(k, key.exp, val, t);
            }
            FUSE.with(|f| f.set(fuse));
            let res = catch_unwind(AssertUnwindSafe(|| match op {
                0 | 1 => {
                    list.insert(key, val, t);
                    None
                }
                2 => Some(list.get_value(t, key).unwrap_or(-9)),
                3 => Some(list.first_less(t, -7, key)),
                _ => Some(list.first_less_or_equal_by(t, -7, |s| {
                    user_call();
                    s.check_live();
                    s.k.cmp(&k)
                })),
            }));
            FUSE.with(|f| f.set(0));
            let seen = observe(&mut list, t, -1, 15, &mut id);
            let exp_before: Vec<(i32, i32)> = before.live(t).iter().map(|e| (e.0, e.2)).collect();
            let exp_after: Vec<(i32, i32)> = after.live(t).iter().map(|e| (e.0, e.2)).collect();
            match res {
                Ok(answer) => {
                    assert_eq!(seen, exp_after);
                    model = after;
                    match op {
                        2 => assert_eq!(answer.unwrap(), before.get(k, t).unwrap_or(-9)),
                        3 => assert_eq!(answer.unwrap(), before.less(k, t, -7)),
                        4 => assert_eq!(answer.unwrap(), before.less_eq(k, t, -7)),
                        _ => {}
                    }
                }
                Err(_) => {
                    injected += 1;
                    if seen == exp_after && is_insert {
                        model = after;
                    } else {
                        assert_eq!(seen, exp_before, "torn update");
                    }
                }
            }
        }
    }
    NOW.with(|n| n.set(-1));
    assert!(injected > 1000, "only {} panics injected", injected);
}

#[test]
fn expiring_list_keeps_storage_small() {
    // a long sweep with a small live population must not accumulate garbage
    let mut list: KeyExpList<XKey, i32, i32> = KeyExpList::new(2);
    let mut id = 0;
    for t in 0..20_000i32 {
        id += 1;
        list.insert(XKey { k: t % 97, exp: t + 5, id }, t, t);
    }
    let v = list.into_ordered_vec(19_999);
    assert_eq!(v.len(), 5);
}

// ---------------------------------------------------------------------------------------------
// map list
// ---------------------------------------------------------------------------------------------

fn pred_key<'a, V>(model: &'a BTreeMap<i32, V>, probe: i32) -> Option<(&'a i32, &'a V)> {
    model.range(..=probe).next_back()
}

#[test]
fn map_list_matches_btreemap_and_tree() {
    let mut rng = Rng(0xA0761D6478BD642F);
    for round in 0..200 {
        let cap = rng.below(5) as usize;
        let mut list: MapList<i32, String> = MapList::new(cap);
        let mut tree: MapTree<i32, String> = MapTree::new(cap);
        let mut model: BTreeMap<i32, String> = BTreeMap::new();
        let span = if round % 2 == 0 { 12 } else { 60 };
        let ascending = round % 5 == 0;
        let mut next = 0;
        for step in 0..500 {
            match rng.below(100) {
                0..=34 => {
                    let k = if ascending { next += 1; next } else { rng.range(0, span) };
                    if !model.contains_key(&k) {
                        let v = format!("v{}_{}", k, step);
                        list.insert(k, v.clone());
                        tree.insert(k, v.clone());
                        model.insert(k, v);
                    }
                }
                35..=49 => {
                    let k = rng.range(-1, span + 1);
                    list.delete(k);
                    tree.delete(k);
                    model.remove(&k);
                }
                50..=64 => {
                    let k = rng.range(-1, span + 1);
                    assert_eq!(list.get_value(k), model.get(&k));
                    assert_eq!(tree.get_value(k), model.get(&k));
                }
                65..=79 => {
                    let k = rng.range(-1, span + 1);
                    let h = list.first_index_less(k);
                    let hb = list.first_index_less_by(|s| s.cmp(&k));
                    assert_eq!(h, hb);
                    let th = tree.first_index_less(k);
                    match pred_key(&model, k) {
                        None => {
                            assert_eq!(h, EMPTY_REF);
                            assert_eq!(th, EMPTY_REF);
                        }
                        Some((pk, pv)) => {
                            // handle = position
                            assert_eq!(h as usize, model.range(..*pk).count());
                            assert_eq!(list.value_by_index(h), pv);
                            assert_eq!(tree.value_by_index(th), pv);
                        }
                    }
                }
                80..=87 => {
                    // write through a handle
                    let k = rng.range(-1, span + 1);
                    let h = list.first_index_less(k);
                    if let Some((pk, _)) = pred_key(&model, k) {
                        let pk = *pk;
                        let v = format!("w{}_{}", pk, step);
                        *list.value_by_index_mut(h) = v.clone();
                        let th = tree.first_index_less(k);
                        *tree.value_by_index_mut(th) = v.clone();
                        model.insert(pk, v);
                    }
                }
                88..=95 => {
                    // delete through a handle
                    let k = rng.range(-1, span + 1);
                    let h = list.first_index_less_by(|s| s.cmp(&k));
                    if let Some((pk, _)) = pred_key(&model, k) {
                        let pk = *pk;
                        list.delete_by_index(h);
                        let th = tree.first_index_less_by(|s| s.cmp(&k));
                        tree.delete_by_index(th);
                        model.remove(&pk);
                    }
                }
                96 => {
                    list.clear();
                    tree.clear();
                    model.clear();
                }
                _ => {
                    assert_eq!(list.is_empty(), model.is_empty());
                    assert_eq!(tree.is_empty(), model.is_empty());
                    for k in -1..=span + 1 {
                        assert_eq!(list.get_value(k), model.get(&k));
                    }
                }
            }
        }
        for k in -1..=(span + 1).max(next) {
            assert_eq!(list.get_value(k), model.get(&k));
            assert_eq!(tree.get_value(k), model.get(&k));
        }
    }
}

#[test]
fn map_list_panicking_comparison_changes_nothing() {
    #[derive(Clone, Copy, Debug)]
    struct PK(i32);
    impl Ord for PK {
        fn cmp(&self, o: &Self) -> Ordering {
            user_call();
            self.0.cmp(&o.0)
        }
    }
    impl PartialOrd for PK {
        fn partial_cmp(&self, o: &Self) -> Option<Ordering> {
            Some(self.cmp(o))
        }
    }
    impl PartialEq for PK {
        fn eq(&self, o: &Self) -> bool {
            self.0 == o.0
        }
    }
    impl Eq for PK {}

    let mut rng = Rng(0xE7037ED1A0B428DB);
    let mut injected = 0;
    for _ in 0..200 {
        let mut list: MapList<PK, String> = MapList::new(0);
        let mut model: BTreeMap<i32, String> = BTreeMap::new();
        for step in 0..150 {
            let k = rng.range(0, 20);
            let fuse = rng.below(7) as u32;
            let insert = rng.below(3) != 0;
            if insert && model.contains_key(&k) {
                continue;
            }
            let before = model.clone();
            let v = format!("{}_{}", k, step);
            FUSE.with(|f| f.set(fuse));
            let res = catch_unwind(AssertUnwindSafe(|| {
                if insert {
                    list.insert(PK(k), v.clone());
                } else {
                    list.delete(PK(k));
                }
            }));
            FUSE.with(|f| f.set(0));
            if res.is_ok() {
                if insert {
                    model.insert(k, v);
                } else {
                    model.remove(&k);
                }
            } else {
                injected += 1;
                model = before;
            }
            for q in -1..=21 {
                assert_eq!(list.get_value(PK(q)), model.get(&q));
            }
        }
    }
    assert!(injected > 500);
}

// ---------------------------------------------------------------------------------------------
// set list
// ---------------------------------------------------------------------------------------------

#[derive(Debug, Clone, PartialEq, Default)]
struct Item {
    key: i32,
    payload: String,
}

impl KeyValue<i32> for Item {
    fn key(&self) -> &i32 {
        &self.key
    }
}

#[test]
fn set_list_matches_btreemap_and_tree() {
    let mut rng = Rng(0x8EBC6AF09C88C6E3);
    for round in 0..200 {
        let cap = rng.below(5) as usize;
        let mut list: SetList<Item> = SetList::new(cap);
        let mut tree: SetTree<i32, Item> = SetTree::new(cap);
        let mut model: BTreeMap<i32, Item> = BTreeMap::new();
        let span = if round % 2 == 0 { 12 } else { 60 };
        for step in 0..500 {
            match rng.below(100) {
                0..=34 => {
                    let k = rng.range(0, span);
                    if !model.contains_key(&k) {
                        let item = Item { key: k, payload: format!("p{}_{}", k, step) };
                        list.insert(item.clone());
                        tree.insert(item.clone());
                        model.insert(k, item);
                    }
                }
                35..=49 => {
                    let k = rng.range(-1, span + 1);
                    list.delete(&k);
                    tree.delete(&k);
                    model.remove(&k);
                }
                50..=62 => {
                    let k = rng.range(-1, span + 1);
                    assert_eq!(list.get_value(&k), model.get(&k));
                    assert_eq!(tree.get_value(&k), model.get(&k));
                }
                63..=75 => {
                    let k = rng.range(-1, span + 1);
                    let h = list.first_index_less(&k);
                    assert_eq!(h, list.first_index_less_by(|s| s.cmp(&k)));
                    match pred_key(&model, k) {
                        None => assert_eq!(h, EMPTY_REF),
                        Some((pk, pv)) => {
                            assert_eq!(h as usize, model.range(..*pk).count());
                            assert_eq!(list.value_by_index(h), pv);
                            let th = tree.first_index_less(&k);
                            assert_eq!(tree.value_by_index(th), pv);
                        }
                    }
                }
                76..=81 => {
                    let k = rng.range(-1, span + 1);
                    let h = list.first_index_less(&k);
                    if let Some((pk, _)) = pred_key(&model, k) {
                        let pk = *pk;
                        let payload = format!("w{}_{}", pk, step);
                        list.value_by_index_mut(h).payload = payload.clone();
                        let th = tree.first_index_less(&k);
                        tree.value_by_index_mut(th).payload = payload.clone();
                        model.get_mut(&pk).unwrap().payload = payload;
                    }
                }
                82..=88 => {
                    let k = rng.range(-1, span + 1);
                    let h = list.first_index_less_by(|s| s.cmp(&k));
                    if let Some((pk, _)) = pred_key(&model, k) {
                        let pk = *pk;
                        list.delete_by_index(h);
                        let th = tree.first_index_less(&k);
                        tree.delete_by_index(th);
                        model.remove(&pk);
                    }
                }
                89..=95 => {
                    // neighbour walks, both directions
                    let expect: Vec<&Item> = model.values().collect();
                    let mut fwd = Vec::new();
                    let mut h = list.first_index_less(&(span + 5));
                    let mut back = Vec::new();
                    while h != EMPTY_REF {
                        back.push(list.value_by_index(h));
                        h = list.index_before(h);
                    }
                    back.reverse();
                    assert_eq!(back, expect);
                    let mut h = if model.is_empty() { EMPTY_REF } else { 0 };
                    while h != EMPTY_REF {
                        fwd.push(list.value_by_index(h));
                        h = list.index_after(h);
                    }
                    assert_eq!(fwd, expect);
                }
                96 => {
                    list.clear();
                    tree.clear();
                    model.clear();
                }
                _ => {
                    assert_eq!(list.is_empty(), model.is_empty());
                    for k in -1..=span + 1 {
                        assert_eq!(list.get_value(&k), model.get(&k));
                        assert_eq!(tree.get_value(&k), model.get(&k));
                    }
                }
            }
        }
    }
}

#[test]
fn comparator_with_several_equal_keys_gives_greatest() {
    // a monotone comparator that is Equal on a whole band: the answer is the greatest key that is
    // not above the band
    let mut list: MapList<i32, i32> = MapList::new(0);
    let mut set: SetList<i32> = SetList::new(0);
    for k in 0..50 {
        list.insert(k * 2, k);
        set.insert(k * 2);
    }
    for lo in -3..100 {
        let hi = lo + 7;
        let f = |k: i32| {
            if k < lo {
                Ordering::Less
            } else if k > hi {
                Ordering::Greater
            } else {
                Ordering::Equal
            }
        };
        let expect = (0..50).map(|k| k * 2).filter(|k| *k <= hi).max();
        let h = list.first_index_less_by(f);
        let hs = set.first_index_less_by(|k| f(*k));
        match expect {
            None => {
                assert_eq!(h, EMPTY_REF);
                assert_eq!(hs, EMPTY_REF);
            }
            Some(k) => {
                assert_eq!(*list.value_by_index(h), k / 2);
                assert_eq!(*set.value_by_index(hs), k);
            }
        }
    }
}
