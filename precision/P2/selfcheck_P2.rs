//! Randomized differential self-check of the cache / fast-path change against simple models.
//! Runs with and without `--features verif-hooks` (the structural checks need the hooks).

use std::cell::Cell;
use std::cmp::Ordering;
use std::collections::BTreeMap;
use std::panic::{catch_unwind, AssertUnwindSafe};

use i_tree::key::array::IntoArray;
use i_tree::key::exp::KeyExpCollection;
use i_tree::key::list::KeyExpList;
use i_tree::key::tree::KeyExpTree;
use i_tree::map::list::MapList;
use i_tree::map::sort::MapCollection;
use i_tree::map::tree::MapTree;
use i_tree::set::list::SetList;
use i_tree::set::sort::{KeyValue, SetCollection};
use i_tree::set::tree::SetTree;
use i_tree::{ExpiredKey, EMPTY_REF};

struct Rng(u64);

impl Rng {
    fn next(&mut self) -> u64 {
        self.0 ^= self.0 << 13;
        self.0 ^= self.0 >> 7;
        self.0 ^= self.0 << 17;
        self.0
    }
    fn below(&mut self, n: u64) -> u64 {
        self.next() % n
    }
    fn range(&mut self, lo: i32, hi: i32) -> i32 {
        lo + self.below((hi - lo + 1) as u64) as i32
    }
}

thread_local! {
    /// countdown of user-callback calls until an injected panic (0 = disarmed)
    static FUSE: Cell<u64> = const { Cell::new(0) };
    /// time of the running expiring-collection operation (i32::MIN = no check)
    static NOW: Cell<i32> = const { Cell::new(i32::MIN) };
}

fn tick() {
    FUSE.with(|f| {
        let v = f.get();
        if v > 0 {
            f.set(v - 1);
            if v == 1 {
                panic!("injected");
            }
        }
    });
}

fn arm(n: u64) {
    FUSE.with(|f| f.set(n));
}

fn quiet_panics() {
    std::panic::set_hook(Box::new(|info| {
        let injected = info.payload().downcast_ref::<&str>().is_some_and(|s| *s == "injected");
        if !injected {
            eprintln!("{info}");
        }
    }));
}

/// Red-black / arena invariants from a snapshot: returns the slots of the tree in key order.
#[cfg(feature = "verif-hooks")]
fn check_arena<T>(snap: &i_tree::verif::VerifSnapshot<T>) -> Vec<u32> {
    let n = snap.slots.len();
    let mut state = vec![0u8; n]; // 0 unknown, 1 tree, 2 free
    let mut order = Vec::new();
    fn walk<T>(
        s: &i_tree::verif::VerifSnapshot<T>, i: u32, parent: u32, state: &mut [u8], order: &mut Vec<u32>,
    ) -> usize {
        if i == EMPTY_REF {
            return 1;
        }
        assert!(i != 0, "sentinel linked");
        let slot = &s.slots[i as usize];
        assert_eq!(state[i as usize], 0, "slot used twice");
        state[i as usize] = 1;
        assert_eq!(slot.parent, parent, "parent link");
        if slot.red {
            for c in [slot.left, slot.right] {
                assert!(c == EMPTY_REF || !s.slots[c as usize].red, "red-red");
            }
        }
        let l = walk(s, slot.left, i, state, order);
        order.push(i);
        let r = walk(s, slot.right, i, state, order);
        assert_eq!(l, r, "black height");
        l + usize::from(!slot.red)
    }
    walk(snap, snap.root, EMPTY_REF, &mut state, &mut order);
    for &f in &snap.free {
        assert!(f != 0 && state[f as usize] == 0, "free slot in use or free twice");
        state[f as usize] = 2;
    }
    assert!(state[1..].iter().all(|&s| s != 0), "lost slot");
    assert!(snap.free.len() <= snap.free_capacity);
    let h = 2.0 * ((order.len() + 1) as f64).log2() + 1.0;
    fn height<T>(s: &i_tree::verif::VerifSnapshot<T>, i: u32) -> usize {
        if i == EMPTY_REF { 0 } else {
            1 + height(s, s.slots[i as usize].left).max(height(s, s.slots[i as usize].right))
        }
    }
    assert!(height(snap, snap.root) as f64 <= h);
    order
}

// ---------------------------------------------------------------- ordered map

#[derive(Clone, Copy, Debug, Default, PartialEq, Eq)]
struct MK(i32);

impl PartialOrd for MK {
    fn partial_cmp(&self, o: &Self) -> Option<Ordering> {
        Some(self.cmp(o))
    }
}

impl Ord for MK {
    fn cmp(&self, o: &Self) -> Ordering {
        tick();
        self.0.cmp(&o.0)
    }
}

fn pred<'a, V>(model: &'a BTreeMap<i32, V>, probe: i32) -> Option<(&'a i32, &'a V)> {
    model.range(..=probe).next_back()
}

#[cfg(feature = "verif-hooks")]
fn check_map(tree: &MapTree<MK, String>, model: &BTreeMap<i32, String>) {
    let snap = tree.verif_snapshot(|k, v| (k.0, v.clone()));
    let order = check_arena(&snap);
    let got: Vec<_> = order.iter().map(|&i| snap.slots[i as usize].payload.clone()).collect();
    let want: Vec<_> = model.iter().map(|(k, v)| (*k, v.clone())).collect();
    assert_eq!(got, want);
    let copy = tree.verif_clone();
    assert_eq!(copy.is_empty(), tree.is_empty());
    assert_eq!(copy.first_index_less(MK(i32::MAX)), tree.first_index_less(MK(i32::MAX)));
    assert_eq!(copy.verif_snapshot(|_, _| ()).free_capacity, snap.free_capacity);
}

#[cfg(not(feature = "verif-hooks"))]
fn check_map(_: &MapTree<MK, String>, _: &BTreeMap<i32, String>) {}

fn map_history(rng: &mut Rng, steps: usize) {
    let span = [6, 40, 1000][rng.below(3) as usize];
    let mode = rng.below(4); // 0 random, 1 ascending, 2 descending, 3 random
    let mut tree: MapTree<MK, String> = MapTree::new(rng.below(20) as usize);
    let mut list: MapList<MK, String> = MapList::new(4);
    let mut model: BTreeMap<i32, String> = BTreeMap::new();
    let mut up = 0;
    let mut down = 0;
    let mut stamp = 0;
    // a handle that must stay good across insertions (C17)
    let mut held: Option<(u32, i32)> = None;

    for _ in 0..steps {
        let inject = rng.below(5) == 0;
        let fuse = 1 + rng.below(10);
        let probe = rng.range(-2, span + 2);
        let op = rng.below(100);
        stamp += 1;
        if op < 40 {
            let key = match mode {
                1 => { up += 1; up }
                2 => { down -= 1; down }
                _ => rng.range(0, span),
            };
            if model.contains_key(&key) {
                continue;
            }
            let val = format!("v{key}.{stamp}");
            if inject {
                arm(fuse);
            }
            let r = catch_unwind(AssertUnwindSafe(|| tree.insert(MK(key), val.clone())));
            arm(0);
            if r.is_ok() {
                list.insert(MK(key), val.clone());
                model.insert(key, val);
            }
        } else if op < 60 {
            let key = if rng.below(3) == 0 || model.is_empty() {
                probe
            } else if rng.below(2) == 0 {
                *model.keys().next().unwrap()
            } else {
                *model.keys().next_back().unwrap()
            };
            if inject {
                arm(fuse);
            }
            let r = catch_unwind(AssertUnwindSafe(|| tree.delete(MK(key))));
            arm(0);
            if r.is_ok() {
                list.delete(MK(key));
                model.remove(&key);
                held = None;
            }
        } else if op < 70 {
            let h = tree.first_index_less(MK(probe));
            let g = list.first_index_less(MK(probe));
            match pred(&model, probe).map(|(k, _)| *k) {
                None => {
                    assert_eq!(h, EMPTY_REF);
                    assert_eq!(g, EMPTY_REF);
                }
                Some(k) => {
                    tree.delete_by_index(h);
                    list.delete_by_index(g);
                    model.remove(&k);
                    held = None;
                }
            }
        } else if op < 78 {
            let h = tree.first_index_less_by(|k| k.cmp(&MK(probe)));
            let g = list.first_index_less_by(|k| k.cmp(&MK(probe)));
            assert_eq!(h, tree.first_index_less(MK(probe)));
            if let Some(k) = pred(&model, probe).map(|(k, _)| *k) {
                let val = format!("w{k}.{stamp}");
                *tree.value_by_index_mut(h) = val.clone();
                *list.value_by_index_mut(g) = val.clone();
                model.insert(k, val);
            } else {
                assert_eq!(h, EMPTY_REF);
                assert_eq!(g, EMPTY_REF);
            }
        } else if op < 80 {
            tree.clear();
            list.clear();
            model.clear();
            held = None;
        } else if op < 85 && held.is_none() {
            let h = tree.first_index_less(MK(probe));
            if h != EMPTY_REF {
                held = Some((h, *pred(&model, probe).unwrap().0));
            }
        }

        // observations
        assert_eq!(tree.is_empty(), model.is_empty());
        assert_eq!(list.is_empty(), model.is_empty());
        assert_eq!(tree.get_value(MK(probe)), model.get(&probe));
        assert_eq!(list.get_value(MK(probe)), model.get(&probe));
        let want = pred(&model, probe).map(|(_, v)| v);
        let h = tree.first_index_less(MK(probe));
        let hb = tree.first_index_less_by(|k| k.cmp(&MK(probe)));
        let g = list.first_index_less(MK(probe));
        assert_eq!(h, hb);
        assert_eq!(if h == EMPTY_REF { None } else { Some(tree.value_by_index(h)) }, want);
        assert_eq!(if g == EMPTY_REF { None } else { Some(list.value_by_index(g)) }, want);
        if let Some((h, k)) = held {
            assert_eq!(Some(tree.value_by_index(h)), model.get(&k));
            assert_eq!(tree.first_index_less(MK(k)), h);
        }
        check_map(&tree, &model);
    }
    for k in -2..=(span.min(60) + 2) {
        assert_eq!(tree.get_value(MK(k)), model.get(&k));
    }
}

#[test]
fn selfcheck_map() {
    quiet_panics();
    let mut rng = Rng(0x9E3779B97F4A7C15);
    for _ in 0..400 {
        map_history(&mut rng, 300);
    }
}

// ---------------------------------------------------------------- ordered set

#[derive(Clone, Debug, Default, PartialEq)]
struct SV {
    key: MK,
    payload: String,
}

impl KeyValue<MK> for SV {
    fn key(&self) -> &MK {
        tick();
        &self.key
    }
}

#[cfg(feature = "verif-hooks")]
fn check_set(tree: &SetTree<MK, SV>, model: &BTreeMap<i32, SV>) {
    let snap = tree.verif_snapshot(|v| v.clone());
    let order = check_arena(&snap);
    let got: Vec<_> = order.iter().map(|&i| snap.slots[i as usize].payload.clone()).collect();
    let want: Vec<_> = model.values().cloned().collect();
    assert_eq!(got, want);
    let copy = tree.verif_clone();
    assert_eq!(copy.is_empty(), tree.is_empty());
    assert_eq!(copy.first_index_less(&MK(i32::MAX)), tree.first_index_less(&MK(i32::MAX)));
    assert_eq!(copy.first_index_less(&MK(i32::MIN)), tree.first_index_less(&MK(i32::MIN)));
    assert_eq!(copy.verif_snapshot(|_| ()).free_capacity, snap.free_capacity);
}

#[cfg(not(feature = "verif-hooks"))]
fn check_set(_: &SetTree<MK, SV>, _: &BTreeMap<i32, SV>) {}

fn walk_set<C: SetCollection<MK, SV>>(c: &C, model: &BTreeMap<i32, SV>) {
    let Some(first) = model.keys().next() else {
        assert_eq!(c.first_index_less(&MK(i32::MAX)), EMPTY_REF);
        return;
    };
    let mut h = c.first_index_less(&MK(*first));
    let mut fwd = Vec::new();
    while h != EMPTY_REF {
        fwd.push(c.value_by_index(h).clone());
        assert!(fwd.len() <= model.len());
        h = c.index_after(h);
    }
    assert_eq!(fwd, model.values().cloned().collect::<Vec<_>>());
    let mut h = c.first_index_less(&MK(i32::MAX));
    let mut bwd = Vec::new();
    while h != EMPTY_REF {
        bwd.push(c.value_by_index(h).clone());
        assert!(bwd.len() <= model.len());
        h = c.index_before(h);
    }
    bwd.reverse();
    assert_eq!(bwd, fwd);
}

fn set_history(rng: &mut Rng, steps: usize) {
    let span = [6, 40, 1000][rng.below(3) as usize];
    let mode = rng.below(4);
    let mut tree: SetTree<MK, SV> = SetTree::new(rng.below(20) as usize);
    let mut list: SetList<SV> = SetList::new(4);
    let mut model: BTreeMap<i32, SV> = BTreeMap::new();
    let mut up = 0;
    let mut down = 0;
    let mut stamp = 0;
    let mut held: Option<(u32, i32)> = None;

    for step in 0..steps {
        let inject = rng.below(5) == 0;
        let fuse = 1 + rng.below(16);
        let probe = rng.range(-2, span + 2);
        let op = rng.below(100);
        stamp += 1;
        if op < 40 {
            let key = match mode {
                1 => { up += 1; up }
                2 => { down -= 1; down }
                _ => rng.range(0, span),
            };
            if model.contains_key(&key) {
                continue;
            }
            let val = SV { key: MK(key), payload: format!("p{key}.{stamp}") };
            if inject {
                arm(fuse);
            }
            let r = catch_unwind(AssertUnwindSafe(|| tree.insert(val.clone())));
            arm(0);
            if r.is_ok() {
                list.insert(val.clone());
                model.insert(key, val);
            }
        } else if op < 60 {
            let key = if rng.below(3) == 0 || model.is_empty() {
                probe
            } else if rng.below(2) == 0 {
                *model.keys().next().unwrap()
            } else {
                *model.keys().next_back().unwrap()
            };
            if inject {
                arm(fuse);
            }
            let r = catch_unwind(AssertUnwindSafe(|| tree.delete(&MK(key))));
            arm(0);
            if r.is_ok() {
                list.delete(&MK(key));
                model.remove(&key);
                held = None;
            }
        } else if op < 70 {
            let h = tree.first_index_less_by(|k| k.cmp(&MK(probe)));
            let g = list.first_index_less_by(|k| k.cmp(&MK(probe)));
            match pred(&model, probe).map(|(k, _)| *k) {
                None => {
                    assert_eq!(h, EMPTY_REF);
                    assert_eq!(g, EMPTY_REF);
                }
                Some(k) => {
                    tree.delete_by_index(h);
                    list.delete_by_index(g);
                    model.remove(&k);
                    held = None;
                }
            }
        } else if op < 78 {
            let h = tree.first_index_less(&MK(probe));
            let g = list.first_index_less(&MK(probe));
            if let Some(k) = pred(&model, probe).map(|(k, _)| *k) {
                let payload = format!("q{k}.{stamp}");
                tree.value_by_index_mut(h).payload = payload.clone();
                list.value_by_index_mut(g).payload = payload.clone();
                model.get_mut(&k).unwrap().payload = payload;
            } else {
                assert_eq!(h, EMPTY_REF);
                assert_eq!(g, EMPTY_REF);
            }
        } else if op < 80 {
            tree.clear();
            list.clear();
            model.clear();
            held = None;
        } else if op < 85 && held.is_none() {
            let h = tree.first_index_less(&MK(probe));
            if h != EMPTY_REF {
                held = Some((h, *pred(&model, probe).unwrap().0));
            }
        }

        assert_eq!(tree.is_empty(), model.is_empty());
        assert_eq!(SetCollection::<MK, SV>::is_empty(&list), model.is_empty());
        assert_eq!(tree.get_value(&MK(probe)), model.get(&probe));
        assert_eq!(list.get_value(&MK(probe)), model.get(&probe));
        let want = pred(&model, probe).map(|(_, v)| v);
        let h = tree.first_index_less(&MK(probe));
        let hb = tree.first_index_less_by(|k| k.cmp(&MK(probe)));
        let g = list.first_index_less(&MK(probe));
        assert_eq!(h, hb);
        assert_eq!(if h == EMPTY_REF { None } else { Some(tree.value_by_index(h)) }, want);
        assert_eq!(if g == EMPTY_REF { None } else { Some(list.value_by_index(g)) }, want);
        if h != EMPTY_REF {
            // neighbours of an arbitrary handle
            let k = want.unwrap().key.0;
            let nx = tree.index_after(h);
            let want_nx = model.range(k + 1..).next().map(|(_, v)| v);
            assert_eq!(if nx == EMPTY_REF { None } else { Some(tree.value_by_index(nx)) }, want_nx);
            let pv = tree.index_before(h);
            let want_pv = model.range(..k).next_back().map(|(_, v)| v);
            assert_eq!(if pv == EMPTY_REF { None } else { Some(tree.value_by_index(pv)) }, want_pv);
        }
        if let Some((h, k)) = held {
            assert_eq!(Some(tree.value_by_index(h)), model.get(&k));
        }
        if step % 7 == 0 || model.len() < 4 {
            walk_set(&tree, &model);
            walk_set(&list, &model);
        }
        check_set(&tree, &model);
    }
}

#[test]
fn selfcheck_set() {
    quiet_panics();
    let mut rng = Rng(0xD1B54A32D192ED03);
    for _ in 0..400 {
        set_history(&mut rng, 300);
    }
}

// ---------------------------------------------------------------- expiring-key tree

thread_local! {
    static STALE_COMPARE: Cell<bool> = const { Cell::new(false) };
    static NEW_ID: Cell<i32> = const { Cell::new(-1) };
}

#[derive(Clone, Copy, Debug)]
struct EK {
    k: i32,
    exp: i32,
    /// unique per inserted key, so that the key being inserted can be told from stored ones
    id: i32,
}

impl PartialEq for EK {
    fn eq(&self, o: &Self) -> bool {
        self.cmp(o) == Ordering::Equal
    }
}

impl Eq for EK {}

impl PartialOrd for EK {
    fn partial_cmp(&self, o: &Self) -> Option<Ordering> {
        Some(self.cmp(o))
    }
}

impl Ord for EK {
    fn cmp(&self, o: &Self) -> Ordering {
        // C20: never handed a key that is expired at the time of the running operation
        let now = NOW.with(|n| n.get());
        let new_id = NEW_ID.with(|n| n.get());
        let stale = |e: &EK| e.exp <= now && e.id != new_id;
        if now != i32::MIN && (stale(self) || stale(o)) {
            STALE_COMPARE.with(|s| s.set(true));
        }
        tick();
        self.k.cmp(&o.k)
    }
}

impl ExpiredKey<i32> for EK {
    fn expiration(&self) -> i32 {
        tick();
        self.exp
    }
}

fn probe_key(k: i32) -> EK {
    EK { k, exp: i32::MAX, id: -1 }
}

#[cfg(feature = "verif-hooks")]
fn check_exp(tree: &KeyExpTree<EK, i32, i32>, live: &BTreeMap<i32, (i32, i32)>, time: i32) {
    let snap = tree.verif_snapshot(|k, v| (k.k, k.exp, *v));
    let order = check_arena(&snap);
    let stored: Vec<_> = order.iter().map(|&i| snap.slots[i as usize].payload).collect();
    assert!(stored.windows(2).all(|w| w[0].0 <= w[1].0), "key order");
    let alive: Vec<_> = stored.iter().filter(|e| e.1 > time).map(|e| (e.0, e.2)).collect();
    let want: Vec<_> = live.iter().map(|(k, (_, v))| (*k, *v)).collect();
    assert_eq!(alive, want);
    assert_eq!(tree.is_empty(), stored.is_empty());
    // the copy behaves like the original, export included
    let copy = tree.verif_clone();
    assert_eq!(copy.is_empty(), tree.is_empty());
    assert_eq!(copy.verif_snapshot(|_, _| ()).free_capacity, snap.free_capacity);
    NOW.with(|n| n.set(time));
    let vec = copy.into_ordered_vec(time);
    NOW.with(|n| n.set(i32::MIN));
    assert_eq!(vec, want.iter().map(|e| e.1).collect::<Vec<_>>());
    assert!(vec.capacity() <= 2 * vec.len() + 8);
}

#[cfg(not(feature = "verif-hooks"))]
fn check_exp(_: &KeyExpTree<EK, i32, i32>, _: &BTreeMap<i32, (i32, i32)>, _: i32) {}

fn exp_history(rng: &mut Rng, steps: usize) {
    let span = [5, 30, 400][rng.below(3) as usize];
    let life = [2, 12, 80][rng.below(3) as usize];
    let pace = rng.below(3); // how fast the clock runs
    let mut tree: KeyExpTree<EK, i32, i32> = KeyExpTree::new(rng.below(20) as usize);
    let mut list: KeyExpList<EK, i32, i32> = KeyExpList::new(4);
    // key -> (expiration, value) of the entries visible at `time`
    let mut live: BTreeMap<i32, (i32, i32)> = BTreeMap::new();
    let mut time = rng.range(-5, 5);
    let mut stamp = 0;

    for _ in 0..steps {
        match pace {
            0 => time += (rng.below(4) == 0) as i32,
            1 => time += rng.range(0, 2),
            _ => time += if rng.below(12) == 0 { rng.range(0, 3 * life) } else { rng.range(0, 1) },
        }
        live.retain(|_, e| e.0 > time);
        let inject = rng.below(5) == 0;
        let fuse = 1 + rng.below(24);
        let probe = rng.range(-2, span + 2);
        let op = rng.below(100);
        stamp += 1;
        NOW.with(|n| n.set(time));
        if op < 45 {
            let k = rng.range(0, span);
            if !live.contains_key(&k) {
                let exp = time + rng.range(0, life);
                let key = EK { k, exp, id: stamp };
                NEW_ID.with(|n| n.set(stamp));
                if inject {
                    arm(fuse);
                }
                let r = catch_unwind(AssertUnwindSafe(|| tree.insert(key, stamp, time)));
                arm(0);
                if r.is_ok() {
                    list.insert(key, stamp, time);
                    if exp > time {
                        live.insert(k, (exp, stamp));
                    }
                }
                NEW_ID.with(|n| n.set(-1));
            }
        } else if op < 48 {
            tree.clear();
            list.clear();
            live.clear();
            assert!(tree.is_empty() && list.is_empty());
            time = rng.range(-5, 5); // the clock may restart
            NOW.with(|n| n.set(time));
        } else if inject {
            // a query that dies half-way changes nothing observable
            arm(fuse);
            let _ = catch_unwind(AssertUnwindSafe(|| match op % 4 {
                0 => { tree.get_value(time, probe_key(probe)); }
                1 => { tree.first_less(time, -1, probe_key(probe)); }
                2 => { tree.first_less_or_equal(time, -1, probe_key(probe)); }
                _ => { tree.first_less_or_equal_by(time, -1, |k| k.cmp(&probe_key(probe))); }
            }));
            arm(0);
        }

        let p = probe_key(probe);
        let want_eq = live.get(&probe).map(|e| e.1);
        let want_lt = live.range(..probe).next_back().map_or(-1, |(_, e)| e.1);
        let want_le = live.range(..=probe).next_back().map_or(-1, |(_, e)| e.1);
        assert_eq!(tree.get_value(time, p), want_eq);
        assert_eq!(list.get_value(time, p), want_eq);
        assert_eq!(tree.first_less(time, -1, p), want_lt);
        assert_eq!(list.first_less(time, -1, p), want_lt);
        assert_eq!(tree.first_less_or_equal(time, -1, p), want_le);
        assert_eq!(list.first_less_or_equal(time, -1, p), want_le);
        assert_eq!(tree.first_less_or_equal_by(time, -1, |k| k.cmp(&p)), want_le);
        assert_eq!(list.first_less_or_equal_by(time, -1, |k| k.cmp(&p)), want_le);
        NOW.with(|n| n.set(i32::MIN));
        assert!(!STALE_COMPARE.with(|s| s.get()), "comparison saw an expired key");
        check_exp(&tree, &live, time);
    }

    if rng.below(2) == 0 {
        time += rng.range(0, life);
        live.retain(|_, e| e.0 > time);
    }
    NOW.with(|n| n.set(time));
    let a = tree.into_ordered_vec(time);
    let b = list.into_ordered_vec(time);
    NOW.with(|n| n.set(i32::MIN));
    let want: Vec<i32> = live.values().map(|e| e.1).collect();
    assert_eq!(a, want);
    assert_eq!(b, want);
    assert!(a.capacity() <= 2 * a.len() + 8);
    assert!(!STALE_COMPARE.with(|s| s.get()), "comparison saw an expired key");
}

#[test]
fn selfcheck_exp() {
    quiet_panics();
    let mut rng = Rng(0xA0761D6478BD642F);
    for _ in 0..600 {
        exp_history(&mut rng, 300);
    }
}
