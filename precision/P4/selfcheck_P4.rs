// Randomized differential self-check of the segment tree against a plain Vec model.
use i_tree::seg::exp::{SegExpCollection, SegRange};
use i_tree::seg::tree::SegExpTree;
use i_tree::{Expiration, ExpiredVal};
use rand::rngs::StdRng;
use rand::{Rng, SeedableRng};
use std::cell::Cell;
use std::cmp::Ordering;
use std::panic::{AssertUnwindSafe, catch_unwind};

thread_local! {
    /// countdown to a panic inside the user callbacks (0 = disarmed)
    static FUSE: Cell<u32> = const { Cell::new(0) };
}

fn tick() {
    FUSE.with(|f| {
        let v = f.get();
        if v > 0 {
            f.set(v - 1);
            if v == 1 {
                panic!("injected");
            }
        }
    });
}

fn arm(n: u32) {
    FUSE.with(|f| f.set(n));
}

/// Expiration type whose comparison is user code that may panic.
#[derive(Clone, Copy, Debug, PartialEq, Eq)]
struct T(i32);

impl PartialOrd for T {
    fn partial_cmp(&self, other: &Self) -> Option<Ordering> {
        Some(self.cmp(other))
    }
}

impl Ord for T {
    fn cmp(&self, other: &Self) -> Ordering {
        tick();
        self.0.cmp(&other.0)
    }
}

impl Expiration for T {
    fn max_expiration() -> Self {
        T(i32::MAX)
    }
}

#[derive(Clone, Copy, Debug)]
struct Val {
    id: u32,
    exp: i32,
}

impl ExpiredVal<T> for Val {
    fn expiration(&self) -> T {
        tick();
        T(self.exp)
    }
}

#[derive(Clone, Copy)]
struct Rec {
    id: u32,
    exp: i32,
    b0: u32,
    b1: u32,
}

struct Model {
    lo: i64,
    scale: u32,
    recs: Vec<Rec>,
}

impl Model {
    fn new(lo: i64, hi: i64) -> Self {
        let last = hi.wrapping_sub(lo) as u64;
        let scale = last.ilog2() + 1 - 5;
        Self { lo, scale, recs: Vec::new() }
    }

    fn bucket(&self, x: i64) -> u32 {
        ((x.wrapping_sub(self.lo) as u64) >> self.scale) as u32
    }

    fn expected(&self, a: i64, b: i64, t: i32) -> Vec<u32> {
        let (q0, q1) = (self.bucket(a), self.bucket(b));
        let mut ids: Vec<u32> = self
            .recs
            .iter()
            .filter(|r| r.exp >= t && r.b0 <= q1 && q0 <= r.b1)
            .map(|r| r.id)
            .collect();
        ids.sort_unstable();
        ids
    }
}

fn pick_range(rng: &mut StdRng, lo: i64, hi: i64) -> (i64, i64) {
    let span = (hi as i128 - lo as i128) as u128;
    let p = |rng: &mut StdRng| -> i64 {
        let off = rng.random_range(0..=span);
        (lo as i128 + off as i128) as i64
    };
    let (mut a, mut b) = (p(rng), p(rng));
    if rng.random_range(0..3) == 0 {
        // short range
        let w = rng.random_range(0..=(span / 20).max(1));
        b = ((a as i128 + w as i128).min(hi as i128)) as i64;
    }
    if a > b {
        std::mem::swap(&mut a, &mut b);
    }
    (a, b)
}

#[cfg(feature = "verif-hooks")]
fn check_dump(tree: &SegExpTree<i64, T, Val>, model: &Model, now: i32, purged_below: Option<i32>) {
    use std::collections::BTreeMap;
    let dump = tree.verif_dump();
    assert!(dump.places >= 48 && dump.places <= 63);
    let mut by_id: BTreeMap<u32, (u64, u64)> = BTreeMap::new();
    for c in &dump.copies {
        assert!(c.place < dump.places);
        assert_ne!(c.mask & (1u64 << c.place), 0, "copy stored at a place outside its mask");
        assert!(c.mask.count_ones() <= 8);
        let e = by_id.entry(c.val.id).or_insert((c.mask, 0));
        assert_eq!(e.0, c.mask);
        assert_eq!(e.1 & (1u64 << c.place), 0, "same value twice in one list");
        e.1 |= 1u64 << c.place;
        if let Some(t) = purged_below {
            assert!(c.val.exp >= t, "expired copy survived a whole-domain query");
        }
    }
    for r in model.recs.iter().filter(|r| r.exp >= now) {
        let (mask, seen) = by_id.get(&r.id).copied().expect("live value lost");
        assert_eq!(mask, seen, "live value lost from some of its places");
    }
}

#[cfg(not(feature = "verif-hooks"))]
fn check_dump(_: &SegExpTree<i64, T, Val>, _: &Model, _: i32, _: Option<i32>) {}

fn run(seed: u64, lo: i64, hi: i64, steps: usize, inject: bool) {
    let mut rng = StdRng::seed_from_u64(seed);
    let mut tree: SegExpTree<i64, T, Val> = SegExpTree::new(SegRange { min: lo, max: hi }).unwrap();
    let mut model = Model::new(lo, hi);
    let mut now = 0i32;
    let mut next_id = 0u32;
    for _ in 0..steps {
        let op = rng.random_range(0..100);
        if op < 50 {
            let (a, b) = pick_range(&mut rng, lo, hi);
            let exp = now + rng.random_range(0..40);
            let val = Val { id: next_id, exp };
            next_id += 1;
            let fail = inject && rng.random_range(0..8) == 0;
            if fail {
                arm(1);
            }
            let r = catch_unwind(AssertUnwindSafe(|| {
                tree.insert_by_range(SegRange { min: a, max: b }, val)
            }));
            arm(0);
            assert_eq!(r.is_err(), fail);
            if r.is_ok() {
                model.recs.push(Rec { id: val.id, exp, b0: model.bucket(a), b1: model.bucket(b) });
            }
            check_dump(&tree, &model, now, None);
        } else if op < 97 {
            now += rng.random_range(0..4) * rng.random_range(0..3);
            model.recs.retain(|r| r.exp >= now);
            let whole = rng.random_range(0..6) == 0;
            let (a, b) = if whole { (lo, hi) } else { pick_range(&mut rng, lo, hi) };
            let want = model.expected(a, b, now);
            let limit = if rng.random_range(0..3) == 0 { rng.random_range(0..=want.len()) } else { usize::MAX };
            if inject && rng.random_range(0..3) == 0 {
                arm(rng.random_range(1..30));
            }
            let r = catch_unwind(AssertUnwindSafe(|| {
                let mut got = Vec::new();
                let mut it = tree.iter_by_range(SegRange { min: a, max: b }, T(now));
                while got.len() < limit {
                    match it.next() {
                        Some(v) => got.push(v),
                        None => break,
                    }
                }
                if limit == usize::MAX {
                    assert!(it.next().is_none(), "iterator not fused");
                }
                got
            }));
            arm(0);
            if let Ok(got) = r {
                let mut ids: Vec<u32> = got.iter().map(|v| v.id).collect();
                ids.sort_unstable();
                if limit == usize::MAX {
                    assert_eq!(ids, want, "seed {seed} query [{a},{b}] at {now}");
                    check_dump(&tree, &model, now, if whole { Some(now) } else { None });
                } else {
                    assert_eq!(ids.len(), limit.min(want.len()));
                    assert!(ids.windows(2).all(|w| w[0] != w[1]), "value yielded twice");
                    assert!(ids.iter().all(|i| want.binary_search(i).is_ok()));
                }
            }
            check_dump(&tree, &model, now, None);
        } else {
            tree.clear();
            model.recs.clear();
            now = rng.random_range(0..=now); // the clock may restart earlier
            #[cfg(feature = "verif-hooks")]
            assert!(tree.verif_dump().copies.is_empty());
            let n = tree.iter_by_range(SegRange { min: lo, max: hi }, T(i32::MIN)).count();
            assert_eq!(n, 0);
        }
    }
}

const DOMAINS: [(i64, i64); 9] = [
    (0, 16),
    (0, 31),
    (-7, 20),
    (0, 128),
    (-10240, 15360),
    (-1000, 999),
    (5, 100_000),
    (i64::MIN, i64::MAX),
    (i64::MIN / 2, i64::MAX / 3),
];

#[test]
fn differential_plain() {
    for (d, &(lo, hi)) in DOMAINS.iter().enumerate() {
        for seed in 0..12 {
            run(seed * 31 + d as u64, lo, hi, 1500, false);
        }
    }
}

#[test]
fn differential_with_panicking_callbacks() {
    let hook = std::panic::take_hook();
    std::panic::set_hook(Box::new(|_| {}));
    for (d, &(lo, hi)) in DOMAINS.iter().enumerate() {
        for seed in 0..12 {
            run(1000 + seed * 17 + d as u64, lo, hi, 1500, true);
        }
    }
    std::panic::set_hook(hook);
}

#[test]
fn long_run_purges_and_shrinks() {
    // many short-lived values in few lists: exercises compaction, the skip, shrink and regrow
    run(77, 0, 40, 20_000, false);
    run(78, 0, 1 << 20, 20_000, true);
}

#[test]
fn small_domains_are_rejected() {
    for n in 0..16i64 {
        assert!(SegExpTree::<i64, T, Val>::new(SegRange { min: 3, max: 3 + n }).is_none());
    }
    assert!(SegExpTree::<i64, T, Val>::new(SegRange { min: 3, max: 19 }).is_some());
}
