// Randomized differential self-check of the sorted-list variants against simple models.
use i_tree::ExpiredKey;
use i_tree::key::array::IntoArray;
use i_tree::key::exp::KeyExpCollection;
use i_tree::key::list::KeyExpList;
use i_tree::key::tree::KeyExpTree;
use i_tree::map::list::MapList;
use i_tree::map::sort::MapCollection;
use i_tree::set::list::SetList;
use i_tree::set::sort::{KeyValue, SetCollection};
use i_tree::EMPTY_REF;
use std::cell::Cell;
use std::cmp::Ordering;
use std::collections::BTreeMap;
use std::panic::{catch_unwind, AssertUnwindSafe};

struct Lcg(u64);
impl Lcg {
    fn next(&mut self) -> u64 {
        self.0 = self.0.wrapping_mul(6364136223846793005).wrapping_add(1442695040888963407);
        self.0 >> 33
    }
    fn below(&mut self, n: u64) -> u64 {
        self.next() % n
    }
}

thread_local! {
    // time of the running operation: comparing a stored key expired at NOW is a C20 violation
    static NOW: Cell<i32> = const { Cell::new(i32::MIN) };
    // number of comparisons until the armed panic fires (0 = disarmed)
    static FUSE: Cell<u32> = const { Cell::new(0) };
    static ONLY_CMP: Cell<bool> = const { Cell::new(false) };
    // key being inserted right now: the new key itself may be compared even if it expires at NOW
    static INSERTING: Cell<Option<i32>> = const { Cell::new(None) };
}

fn burn_fuse() {
    FUSE.with(|f| {
        let left = f.get();
        if left > 0 {
            f.set(left - 1);
            if left == 1 {
                panic!("armed comparison panic");
            }
        }
    });
}

#[derive(Debug, Clone, Copy)]
struct Key {
    key: i32,
    exp: i32,
    probe: bool,
}

impl Key {
    fn stored(key: i32, exp: i32) -> Self {
        Self { key, exp, probe: false }
    }
    fn probe(key: i32) -> Self {
        Self { key, exp: i32::MAX, probe: true }
    }
    fn check_live(&self) {
        let now = NOW.with(|n| n.get());
        let is_new = self.exp == now && INSERTING.with(|i| i.get()) == Some(self.key);
        assert!(self.probe || is_new || self.exp > now, "compared expired key {:?} at {}", self, now);
    }
}

impl Ord for Key {
    fn cmp(&self, other: &Self) -> Ordering {
        self.check_live();
        other.check_live();
        burn_fuse();
        self.key.cmp(&other.key)
    }
}
impl Eq for Key {}
impl PartialEq for Key {
    fn eq(&self, other: &Self) -> bool {
        assert!(!ONLY_CMP.with(|c| c.get()), "the lists are expected to use Ord::cmp only");
        self.cmp(other) == Ordering::Equal
    }
}
impl PartialOrd for Key {
    fn partial_cmp(&self, other: &Self) -> Option<Ordering> {
        assert!(!ONLY_CMP.with(|c| c.get()), "the lists are expected to use Ord::cmp only");
        Some(self.cmp(other))
    }
}

/// Runs a list operation at time `t`; the trees may use `<` / `==`, the lists must not.
fn on_list<T>(t: i32, f: impl FnOnce() -> T) -> T {
    NOW.with(|n| n.set(t));
    ONLY_CMP.with(|c| c.set(true));
    let r = f();
    ONLY_CMP.with(|c| c.set(false));
    r
}
impl ExpiredKey<i32> for Key {
    fn expiration(&self) -> i32 {
        self.exp
    }
}

/// Reference semantics: (key, exp, val) of everything inserted since the last clear.
#[derive(Default)]
struct ExpModel(Vec<(i32, i32, i32)>);

impl ExpModel {
    fn live(&self, t: i32) -> Vec<(i32, i32)> {
        let mut v: Vec<(i32, i32)> =
            self.0.iter().filter(|e| e.1 > t).map(|e| (e.0, e.2)).collect();
        v.sort();
        v
    }
    fn has_live(&self, t: i32, key: i32) -> bool {
        self.0.iter().any(|e| e.0 == key && e.1 > t)
    }
    fn get(&self, t: i32, key: i32) -> Option<i32> {
        self.live(t).iter().find(|e| e.0 == key).map(|e| e.1)
    }
    fn below(&self, t: i32, key: i32, inclusive: bool, default: i32) -> i32 {
        self.live(t)
            .iter()
            .rev()
            .find(|e| e.0 < key || (inclusive && e.0 == key))
            .map_or(default, |e| e.1)
    }
}

fn exp_round(seed: u64, capacity: usize, key_span: u64, steps: usize) {
    let mut rng = Lcg(seed);
    let mut list: KeyExpList<Key, i32, i32> = KeyExpList::new(capacity);
    let mut tree: KeyExpTree<Key, i32, i32> = KeyExpTree::new(capacity);
    let mut model = ExpModel::default();
    let mut t = 0i32;
    let mut next_val = 0i32;
    assert!(list.is_empty());

    for _ in 0..steps {
        // bursts of the same time, small steps and occasional jumps
        t += match rng.below(10) { 0..=3 => 0, 4..=8 => 1, _ => rng.below(40) as i32 };
        let k = rng.below(key_span) as i32 - 3;
        let by = |probe: i32| move |s: Key| { s.check_live(); s.key.cmp(&probe) };
        match rng.below(16) {
            0..=6 => {
                if model.has_live(t, k) { continue; }
                let exp = t + match rng.below(8) { 0 => 0, 1 => 1, _ => rng.below(60) as i32 };
                next_val += 1;
                INSERTING.with(|i| i.set(Some(k)));
                on_list(t, || list.insert(Key::stored(k, exp), next_val, t));
                tree.insert(Key::stored(k, exp), next_val, t);
                INSERTING.with(|i| i.set(None));
                model.0.push((k, exp, next_val));
                assert!(!list.is_empty());
            }
            7..=8 => {
                let got = on_list(t, || list.get_value(t, Key::probe(k)));
                assert_eq!(got, model.get(t, k));
                assert_eq!(tree.get_value(t, Key::probe(k)), got);
            }
            9..=10 => {
                let got = on_list(t, || list.first_less(t, -1, Key::probe(k)));
                assert_eq!(got, model.below(t, k, false, -1));
                assert_eq!(tree.first_less(t, -1, Key::probe(k)), got);
            }
            11..=12 => {
                let got = on_list(t, || list.first_less_or_equal(t, -1, Key::probe(k)));
                assert_eq!(got, model.below(t, k, true, -1));
                assert_eq!(tree.first_less_or_equal(t, -1, Key::probe(k)), got);
            }
            13..=14 => {
                let got = on_list(t, || list.first_less_or_equal_by(t, -1, by(k)));
                assert_eq!(got, model.below(t, k, true, -1));
                assert_eq!(tree.first_less_or_equal_by(t, -1, by(k)), got);
            }
            _ => {
                if rng.below(6) != 0 { continue; }
                list.clear();
                tree.clear();
                model.0.clear();
                assert!(list.is_empty());
                // the caller's clock may restart after a clear
                t = rng.below(5) as i32;
            }
        }
        // what the original reports: nothing stored once every entry is expired at the last time
        if model.live(t).is_empty() && model.0.last().map_or(true, |e| e.1 != t) {
            // (an entry inserted with exp == t may still be physically present)
            on_list(t, || list.first_less(t, -1, Key::probe(0)));
            assert!(list.is_empty());
        }
    }

    let expect: Vec<i32> = model.live(t).iter().map(|e| e.1).collect();
    let out = on_list(t, || list.into_ordered_vec(t));
    assert_eq!(out, expect);
    assert!(out.capacity() <= 2 * out.len() + 8.max(capacity));
    assert_eq!(tree.into_ordered_vec(t), expect);
}

#[test]
fn exp_list_matches_model() {
    for seed in 0..300u64 {
        exp_round(seed, (seed % 7) as usize, 6 + seed % 40, 400);
    }
    exp_round(1000, 0, 400, 6000);
    exp_round(1001, 512, 9, 6000);
}

/// Everything observable at time `t`: exact lookups and predecessor answers for a key range.
fn observe(list: &mut KeyExpList<Key, i32, i32>, t: i32) -> Vec<(Option<i32>, i32, i32)> {
    (-4..45)
        .map(|k| {
            on_list(t, || {
                (
                    list.get_value(t, Key::probe(k)),
                    list.first_less(t, -1, Key::probe(k)),
                    list.first_less_or_equal_by(t, -1, |s| s.key.cmp(&k)),
                )
            })
        })
        .collect()
}

#[test]
fn exp_list_survives_panicking_comparison() {
    let mut rng = Lcg(77);
    for round in 0..100 {
        let mut list: KeyExpList<Key, i32, i32> = KeyExpList::new(round % 5);
        let mut model = ExpModel::default();
        let mut t = 0;
        for step in 0..60 {
            t += rng.below(3) as i32;
            let k = rng.below(40) as i32;
            if model.has_live(t, k) { continue; }
            let exp = t + rng.below(20) as i32;
            let before = observe(&mut list, t);
            FUSE.with(|f| f.set(1 + rng.below(6) as u32));
            INSERTING.with(|i| i.set(Some(k)));
            let r = catch_unwind(AssertUnwindSafe(|| {
                on_list(t, || list.insert(Key::stored(k, exp), step, t))
            }));
            FUSE.with(|f| f.set(0));
            INSERTING.with(|i| i.set(None));
            ONLY_CMP.with(|c| c.set(false));
            if r.is_ok() {
                model.0.push((k, exp, step));
            } else {
                assert_eq!(observe(&mut list, t), before, "torn insert");
            }
            // a panicking query changes nothing either
            FUSE.with(|f| f.set(1 + rng.below(4) as u32));
            let _ = catch_unwind(AssertUnwindSafe(|| {
                on_list(t, || list.first_less_or_equal(t, -1, Key::probe(k)))
            }));
            FUSE.with(|f| f.set(0));
            ONLY_CMP.with(|c| c.set(false));
            let o = observe(&mut list, t);
            for (i, k) in (-4..45).enumerate() {
                assert_eq!(o[i].0, model.get(t, k));
                assert_eq!(o[i].1, model.below(t, k, false, -1));
                assert_eq!(o[i].2, model.below(t, k, true, -1));
            }
        }
        let expect: Vec<i32> = model.live(t).iter().map(|e| e.1).collect();
        assert_eq!(on_list(t, || list.into_ordered_vec(t)), expect);
    }
}

fn map_round(seed: u64, capacity: usize, key_span: u64, steps: usize) {
    let mut rng = Lcg(seed);
    let mut list: MapList<i32, String> = MapList::new(capacity);
    let mut model: BTreeMap<i32, String> = BTreeMap::new();
    let mut regime = 0;
    for step in 0..steps {
        if step % 97 == 0 { regime = rng.below(4); }
        assert_eq!(list.is_empty(), model.is_empty());
        // regimes: uniform keys, ascending front-heavy, descending, drain
        let k = match regime {
            1 => rng.below(4) as i32,
            2 => key_span as i32 - rng.below(4) as i32,
            _ => rng.below(key_span) as i32,
        } - 2;
        let rank = |m: &BTreeMap<i32, String>, k: i32| -> u32 {
            match m.range(..=k).count() { 0 => EMPTY_REF, n => n as u32 - 1 }
        };
        match (rng.below(12), regime) {
            (0..=4, 0..=2) | (0..=1, _) => {
                if model.contains_key(&k) { continue; }
                let v = format!("v{}_{}", k, step);
                list.insert(k, v.clone());
                model.insert(k, v);
            }
            (5..=6, _) => {
                list.delete(k);
                model.remove(&k);
            }
            (7, _) => assert_eq!(list.get_value(k), model.get(&k)),
            (8..=10, _) => {
                let h = list.first_index_less(k);
                assert_eq!(h, rank(&model, k));
                assert_eq!(list.first_index_less_by(|s| s.cmp(&k)), h);
                if h == EMPTY_REF { continue; }
                let (mk, mv) = model.range(..=k).next_back().map(|(a, b)| (*a, b.clone())).unwrap();
                assert_eq!(list.value_by_index(h), &mv);
                match rng.below(3) {
                    0 => {
                        list.value_by_index_mut(h).push('!');
                        model.get_mut(&mk).unwrap().push('!');
                    }
                    1 => {
                        list.delete_by_index(h);
                        model.remove(&mk);
                    }
                    _ => {}
                }
            }
            _ => {
                if rng.below(8) != 0 { continue; }
                list.clear();
                model.clear();
                assert!(list.is_empty());
            }
        }
        // full cross-check of contents through every public read path
        for (i, (mk, mv)) in model.iter().enumerate() {
            assert_eq!(list.get_value(*mk), Some(mv));
            assert_eq!(list.first_index_less(*mk), i as u32);
            assert_eq!(list.value_by_index(i as u32), mv);
        }
        assert_eq!(list.get_value(-7), None);
        assert_eq!(list.first_index_less(-7), EMPTY_REF);
    }
}

#[test]
fn map_list_matches_btreemap() {
    for seed in 0..120u64 {
        map_round(seed, (seed % 9) as usize, 5 + seed % 50, 500);
    }
}

#[derive(Debug, Clone, PartialEq)]
struct Item {
    id: i32,
    payload: String,
}

impl KeyValue<i32> for Item {
    fn key(&self) -> &i32 {
        burn_fuse();
        &self.id
    }
}

fn set_contents(list: &SetList<Item>) -> Vec<Item> {
    // forward walk from the smallest value by successor steps
    let mut out = Vec::new();
    let mut h = list.first_index_less(&i32::MAX);
    while h != EMPTY_REF {
        out.push(list.value_by_index(h).clone());
        h = list.index_before(h);
    }
    out.reverse();
    let mut fwd = Vec::new();
    let mut h = if out.is_empty() { EMPTY_REF } else { list.first_index_less(&out[0].id) };
    while h != EMPTY_REF {
        fwd.push(list.value_by_index(h).clone());
        h = list.index_after(h);
    }
    assert_eq!(fwd, out);
    out
}

#[test]
fn set_list_matches_btreemap() {
    for seed in 0..120u64 {
        let mut rng = Lcg(seed * 31 + 5);
        let span = 5 + seed % 45;
        let mut list: SetList<Item> = SetList::new((seed % 6) as usize);
        let mut model: BTreeMap<i32, String> = BTreeMap::new();
        for step in 0..500 {
            let k = rng.below(span) as i32 - 2;
            assert_eq!(SetCollection::<i32, Item>::is_empty(&list), model.is_empty());
            match rng.below(12) {
                0..=4 => {
                    if model.contains_key(&k) { continue; }
                    let payload = format!("p{}_{}", k, step);
                    // a panicking key accessor must leave the set as it was or with the value in
                    let before = set_contents(&list);
                    FUSE.with(|f| f.set(rng.below(7) as u32));
                    let item = Item { id: k, payload: payload.clone() };
                    let r = catch_unwind(AssertUnwindSafe(|| list.insert(item)));
                    FUSE.with(|f| f.set(0));
                    if r.is_ok() {
                        model.insert(k, payload);
                    } else {
                        assert_eq!(set_contents(&list), before);
                    }
                }
                5..=6 => {
                    list.delete(&k);
                    model.remove(&k);
                }
                7 => {
                    let got = list.get_value(&k).map(|v| v.payload.clone());
                    assert_eq!(got, model.get(&k).cloned());
                }
                8..=10 => {
                    let h = list.first_index_less(&k);
                    assert_eq!(list.first_index_less_by(|s| s.cmp(&k)), h);
                    let m = model.range(..=k).next_back().map(|(a, b)| (*a, b.clone()));
                    assert_eq!(h == EMPTY_REF, m.is_none());
                    let Some((mk, mv)) = m else { continue };
                    assert_eq!(list.value_by_index(h), &Item { id: mk, payload: mv });
                    let up = list.index_after(h);
                    let next = model.range(mk + 1..).next().map(|(a, _)| *a);
                    assert_eq!(up == EMPTY_REF, next.is_none());
                    if up != EMPTY_REF {
                        assert_eq!(list.value_by_index(up).id, next.unwrap());
                    }
                    match rng.below(3) {
                        0 => {
                            list.value_by_index_mut(h).payload.push('!');
                            model.get_mut(&mk).unwrap().push('!');
                        }
                        1 => {
                            list.delete_by_index(h);
                            model.remove(&mk);
                        }
                        _ => {}
                    }
                }
                _ => {
                    if rng.below(8) != 0 { continue; }
                    SetCollection::<i32, Item>::clear(&mut list);
                    model.clear();
                }
            }
            let expect: Vec<Item> =
                model.iter().map(|(k, p)| Item { id: *k, payload: p.clone() }).collect();
            assert_eq!(set_contents(&list), expect);
        }
    }
}

#[cfg(feature = "verif-hooks")]
#[test]
fn exp_list_hooks_report_stored_entries() {
    let mut list: KeyExpList<Key, i32, i32> = KeyExpList::new(4);
    for (i, (k, exp)) in [(5, 9), (1, 3), (8, 4), (3, 20), (7, 3)].into_iter().enumerate() {
        on_list(0, || list.insert(Key::stored(k, exp), i as i32, 0));
    }
    let (all, min) = list.verif_state(|k, v| (k.key, k.exp, *v));
    assert_eq!(all, vec![(1, 3, 1), (3, 20, 3), (5, 9, 0), (7, 3, 4), (8, 4, 2)]);
    assert_eq!(min, 3);
    assert_eq!(on_list(3, || list.first_less(3, -1, Key::probe(100))), 2);
    let mut copy = list.verif_clone();
    for l in [&list, &copy] {
        let (all, min) = l.verif_state(|k, v| (k.key, k.exp, *v));
        assert_eq!(all, vec![(3, 20, 3), (5, 9, 0), (8, 4, 2)]);
        assert_eq!(min, 4);
    }
    assert_eq!(on_list(9, || copy.first_less(9, -1, Key::probe(100))), 3);
    assert_eq!(copy.verif_state(|k, _| k.key), (vec![3], 20));
    assert_eq!(list.verif_state(|k, _| k.key).0, vec![3, 5, 8]);
}
