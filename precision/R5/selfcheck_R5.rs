//! Randomized differential self-check of the segment tree against a plain Vec model.

use i_tree::ExpiredVal;
use i_tree::seg::exp::{SegExpCollection, SegRange};
use i_tree::seg::tree::SegExpTree;
use rand::rngs::StdRng;
use rand::{Rng, SeedableRng};
use std::cell::Cell;
use std::panic::{AssertUnwindSafe, catch_unwind};

thread_local! {
    /// Number of `expiration()` calls left before one panics (negative: never).
    static FUSE: Cell<i64> = const { Cell::new(-1) };
    static CALLS: Cell<u64> = const { Cell::new(0) };
}

#[derive(Clone, Copy, Debug, PartialEq, Eq, PartialOrd, Ord)]
struct Val {
    id: u32,
    exp: i64,
}

impl ExpiredVal<i64> for Val {
    fn expiration(&self) -> i64 {
        CALLS.with(|c| c.set(c.get() + 1));
        FUSE.with(|f| {
            let left = f.get();
            if left == 0 {
                f.set(-1);
                panic!("injected expiration panic");
            }
            if left > 0 {
                f.set(left - 1);
            }
        });
        self.exp
    }
}

#[derive(Clone, Copy, Debug)]
struct Stored {
    val: Val,
    b0: u32,
    b1: u32,
    lo: i64,
    hi: i64,
}

/// Independent re-statement of the coordinate -> bucket mapping (C14).
struct Model {
    lo: i64,
    scale: u32,
    small: bool,
    items: Vec<Stored>,
}

impl Model {
    fn new(lo: i64, hi: i64) -> Option<Self> {
        if hi < lo {
            return None;
        }
        let last = hi.wrapping_sub(lo) as u64; // points - 1
        if last < 16 {
            return None;
        }
        // smallest power-of-two width w with 32 * w >= points
        let mut scale = 0u32;
        while scale < 64 && ((last >> scale) >= 32) {
            scale += 1;
        }
        Some(Self { lo, scale, small: last < 32, items: Vec::new() })
    }

    fn bucket(&self, x: i64) -> u32 {
        ((x.wrapping_sub(self.lo) as u64) >> self.scale) as u32
    }

    fn insert(&mut self, lo: i64, hi: i64, val: Val) {
        let (b0, b1) = (self.bucket(lo), self.bucket(hi));
        assert!(b0 <= b1 && b1 < 32);
        self.items.push(Stored { val, b0, b1, lo, hi });
    }

    fn query(&self, lo: i64, hi: i64, t: i64) -> Vec<Val> {
        let (c0, c1) = (self.bucket(lo), self.bucket(hi));
        let mut out: Vec<Val> = self
            .items
            .iter()
            .filter(|s| s.val.exp >= t && s.b0 <= c1 && c0 <= s.b1)
            .map(|s| s.val)
            .collect();
        if self.small {
            let exact: Vec<Val> = self
                .items
                .iter()
                .filter(|s| s.val.exp >= t && s.lo <= hi && lo <= s.hi)
                .map(|s| s.val)
                .collect();
            assert_eq!(out, exact);
        }
        out.sort();
        out
    }
}

fn domains(rng: &mut StdRng) -> (i64, i64) {
    match rng.random_range(0..8) {
        0 => (0, 16),
        1 => (0, 31),
        2 => (-7, 17),
        3 => (-10240, 15360),
        4 => (i64::MIN, i64::MAX),
        5 => (i64::MIN / 2, i64::MAX / 2 + 12345),
        6 => {
            let lo = rng.random_range(-1000..1000);
            (lo, lo + rng.random_range(16..200))
        }
        _ => {
            let lo = rng.random_range(-1_000_000..1_000_000i64);
            (lo, lo + rng.random_range(16..5_000_000i64))
        }
    }
}

fn pick(rng: &mut StdRng, lo: i64, hi: i64) -> i64 {
    match rng.random_range(0..10) {
        0 => lo,
        1 => hi,
        _ => {
            let span = hi.wrapping_sub(lo) as u64;
            let off = if span == u64::MAX { rng.random::<u64>() } else { rng.random_range(0..=span) };
            lo.wrapping_add(off as i64)
        }
    }
}

fn pick_range(rng: &mut StdRng, lo: i64, hi: i64) -> (i64, i64) {
    let a = pick(rng, lo, hi);
    let b = if rng.random_range(0..3) == 0 {
        // short range
        let span = hi.wrapping_sub(a) as u64;
        a.wrapping_add(rng.random_range(0..=span.min(64)) as i64)
    } else {
        pick(rng, lo, hi)
    };
    if a <= b { (a, b) } else { (b, a) }
}

fn full(tree: &mut SegExpTree<i64, i64, Val>, lo: i64, hi: i64, t: i64) -> Vec<Val> {
    let mut got: Vec<Val> = tree.iter_by_range(SegRange { min: lo, max: hi }, t).collect();
    got.sort();
    got
}

#[cfg(feature = "verif-hooks")]
fn check_dump(tree: &SegExpTree<i64, i64, Val>, model: &Model, t: Option<i64>) {
    let dump = tree.verif_dump();
    assert!(dump.places >= 32 && dump.places <= 64);
    let mut per_val: std::collections::BTreeMap<u32, u64> = Default::default();
    for c in &dump.copies {
        assert!(c.place < dump.places);
        assert!((c.mask >> c.place) & 1 == 1, "copy stored at a place outside its mask");
        assert!(c.mask.count_ones() <= 8);
        let seen = per_val.entry(c.val.id).or_default();
        assert_eq!(*seen & (1 << c.place), 0, "two copies at one place");
        *seen |= 1 << c.place;
        if let Some(t) = t {
            assert!(c.val.exp >= t, "expired copy survived a whole-domain query");
        }
    }
    // every value that a later query may report has all its copies
    let horizon = t.unwrap_or(i64::MIN);
    for s in &model.items {
        if s.val.exp >= horizon {
            let seen = per_val.get(&s.val.id).copied().unwrap_or(0);
            assert_ne!(seen, 0);
            assert_eq!(seen.count_ones() <= 8, true);
            // all copies or none
            let c = dump.copies.iter().find(|c| c.val.id == s.val.id).unwrap();
            assert_eq!(seen, c.mask);
        }
    }
}

#[cfg(not(feature = "verif-hooks"))]
fn check_dump(_: &SegExpTree<i64, i64, Val>, _: &Model, _: Option<i64>) {}

#[test]
fn small_domains_are_rejected() {
    for n in 1..=16i64 {
        for lo in [-100i64, -3, 0, 5, i64::MAX - 20] {
            assert!(SegExpTree::<i64, i64, Val>::new(SegRange { min: lo, max: lo + n - 1 }).is_none());
            assert!(Model::new(lo, lo + n - 1).is_none());
        }
    }
    for n in 17..=80i64 {
        for lo in [-100i64, -3, 0, 5, i64::MAX - 100] {
            assert!(SegExpTree::<i64, i64, Val>::new(SegRange { min: lo, max: lo + n - 1 }).is_some());
        }
    }
}

#[test]
fn differential_random() {
    for seed in 0..400u64 {
        let mut rng = StdRng::seed_from_u64(0xC0FFEE ^ seed);
        let (lo, hi) = domains(&mut rng);
        let mut tree = SegExpTree::<i64, i64, Val>::new(SegRange { min: lo, max: hi }).unwrap();
        let mut model = Model::new(lo, hi).unwrap();
        // a second tree that is cleared must behave like the fresh one
        let mut id = 0u32;
        let mut time = rng.random_range(-50..50i64);
        let steps = rng.random_range(10..400);
        let exp_spread = [3i64, 20, 200][rng.random_range(0..3)];

        for _ in 0..steps {
            match rng.random_range(0..100) {
                0..45 => {
                    let (a, b) = pick_range(&mut rng, lo, hi);
                    // expiration may even lie below the current time
                    let exp = time + rng.random_range(-2..exp_spread);
                    let val = Val { id, exp };
                    id += 1;
                    tree.insert_by_range(SegRange { min: a, max: b }, val);
                    model.insert(a, b, val);
                }
                45..75 => {
                    time += rng.random_range(0..4);
                    let (a, b) = pick_range(&mut rng, lo, hi);
                    let got = full(&mut tree, a, b, time);
                    assert_eq!(got, model.query(a, b, time), "seed {seed}");
                }
                75..88 => {
                    // partially consumed (possibly not at all)
                    time += rng.random_range(0..3);
                    let (a, b) = pick_range(&mut rng, lo, hi);
                    let want = model.query(a, b, time);
                    let k = rng.random_range(0..=want.len() + 1);
                    let mut got: Vec<Val> =
                        tree.iter_by_range(SegRange { min: a, max: b }, time).take(k).collect();
                    assert_eq!(got.len(), k.min(want.len()));
                    got.sort();
                    got.dedup();
                    assert_eq!(got.len(), k.min(want.len()), "duplicate yielded");
                    assert!(got.iter().all(|v| want.binary_search(v).is_ok()));
                }
                88..94 => {
                    // whole-domain query, fully consumed; fused afterwards
                    time += rng.random_range(0..3);
                    let mut it = tree.iter_by_range(SegRange { min: lo, max: hi }, time);
                    let mut got = Vec::new();
                    for v in &mut it {
                        got.push(v);
                    }
                    assert!(it.next().is_none());
                    assert!(it.next().is_none());
                    drop(it);
                    got.sort();
                    assert_eq!(got, model.query(lo, hi, time));
                    check_dump(&tree, &model, Some(time));
                    model.items.retain(|s| s.val.exp >= time);
                }
                94..97 => {
                    tree.clear();
                    model.items.clear();
                    // the clock may restart
                    time = rng.random_range(-100..50);
                    assert!(full(&mut tree, lo, hi, i64::MIN).is_empty());
                    check_dump(&tree, &model, None);
                }
                _ => {
                    // panic injection into the expiration accessor, during query or insert
                    let fuse = rng.random_range(0..12);
                    if rng.random_bool(0.5) {
                        time += rng.random_range(0..3);
                        let (a, b) = pick_range(&mut rng, lo, hi);
                        FUSE.with(|f| f.set(fuse));
                        let r = catch_unwind(AssertUnwindSafe(|| full(&mut tree, a, b, time)));
                        FUSE.with(|f| f.set(-1));
                        if let Ok(got) = r {
                            assert_eq!(got, model.query(a, b, time));
                        }
                    } else {
                        let (a, b) = pick_range(&mut rng, lo, hi);
                        let val = Val { id, exp: time + rng.random_range(0..exp_spread) };
                        id += 1;
                        FUSE.with(|f| f.set(fuse));
                        let r = catch_unwind(AssertUnwindSafe(|| {
                            tree.insert_by_range(SegRange { min: a, max: b }, val)
                        }));
                        FUSE.with(|f| f.set(-1));
                        if r.is_ok() {
                            model.insert(a, b, val);
                        }
                        // else: must be exactly the state before the insert
                    }
                    let got = full(&mut tree, lo, hi, time);
                    assert_eq!(got, model.query(lo, hi, time), "seed {seed} after panic");
                    // and every narrow query agrees too (no torn insert)
                    for _ in 0..8 {
                        let (a, b) = pick_range(&mut rng, lo, hi);
                        assert_eq!(full(&mut tree, a, b, time), model.query(a, b, time));
                    }
                }
            }
        }
        // final sweep far in the future empties everything
        let end = time + 1000;
        assert!(full(&mut tree, lo, hi, end).is_empty());
        model.items.clear();
        check_dump(&tree, &model, Some(end));
    }
}

/// An iterator that panicked while opening a place can be resumed without losing values.
#[test]
fn iterator_resumes_after_panic() {
    let mut rng = StdRng::seed_from_u64(77);
    for _ in 0..200 {
        let (lo, hi) = (0i64, 1023i64);
        let mut tree = SegExpTree::<i64, i64, Val>::new(SegRange { min: lo, max: hi }).unwrap();
        let mut model = Model::new(lo, hi).unwrap();
        for id in 0..rng.random_range(1..60u32) {
            let (a, b) = pick_range(&mut rng, lo, hi);
            let val = Val { id, exp: rng.random_range(0..20) };
            tree.insert_by_range(SegRange { min: a, max: b }, val);
            model.insert(a, b, val);
        }
        let t = rng.random_range(0..20);
        let (a, b) = pick_range(&mut rng, lo, hi);
        let want = model.query(a, b, t);
        let mut it = tree.iter_by_range(SegRange { min: a, max: b }, t);
        let mut got = Vec::new();
        let mut panics = 0;
        loop {
            FUSE.with(|f| f.set(rng.random_range(0..15)));
            let r = catch_unwind(AssertUnwindSafe(|| it.next()));
            FUSE.with(|f| f.set(-1));
            match r {
                Ok(Some(v)) => got.push(v),
                Ok(None) => break,
                Err(_) => panics += 1,
            }
            assert!(panics < 10_000);
        }
        drop(it);
        got.sort();
        assert_eq!(got, want);
    }
}

/// Stored copies stay bounded by the live population in a long sweep (C16),
/// observed through the number of accessor calls a whole-domain query makes.
#[test]
fn scan_cost_follows_live_population() {
    let (lo, hi) = (0i64, 4095i64);
    let mut rng = StdRng::seed_from_u64(5);
    let mut tree = SegExpTree::<i64, i64, Val>::new(SegRange { min: lo, max: hi }).unwrap();
    for t in 0..5000i64 {
        let (a, b) = pick_range(&mut rng, lo, hi);
        tree.insert_by_range(SegRange { min: a, max: b }, Val { id: t as u32, exp: t + 10 });
        let n = tree.iter_by_range(SegRange { min: lo, max: hi }, t).count();
        assert_eq!(n, (t + 1).min(11) as usize);
    }
    let before = CALLS.with(|c| c.get());
    let n = tree.iter_by_range(SegRange { min: lo, max: hi }, 4999).count();
    let calls = CALLS.with(|c| c.get()) - before;
    assert_eq!(n, 11);
    assert!(calls <= 11 * 8, "{calls} accessor calls for 11 live values");
}
