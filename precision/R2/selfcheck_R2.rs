// Randomized differential self-check of the ordered map tree against BTreeMap.
// With `--features verif-hooks` the arena is additionally validated after every operation.

use i_tree::EMPTY_REF;
use i_tree::map::list::MapList;
use i_tree::map::sort::MapCollection;
use i_tree::map::tree::MapTree;
use rand::rngs::StdRng;
use rand::{Rng, SeedableRng};
use std::cell::Cell;
use std::cmp::Ordering;
use std::collections::BTreeMap;
use std::panic::{AssertUnwindSafe, catch_unwind};

#[cfg(feature = "verif-hooks")]
fn check_structure<K: Copy + Ord + Default + std::fmt::Debug, V: Clone + Default>(
    tree: &MapTree<K, V>,
    expected_len: usize,
) {
    let snap = tree.verif_snapshot(|k, _| *k);
    let n = snap.slots.len();
    let mut state = vec![0u8; n]; // 0 unknown, 1 sentinel, 2 tree, 3 free
    state[0] = 1;
    for &f in &snap.free {
        assert!((f as usize) < n);
        assert_eq!(state[f as usize], 0, "slot {} free twice or sentinel", f);
        state[f as usize] = 3;
    }
    assert!(snap.root != 0);
    // returns (black height, count, min, max)
    fn walk<K: Copy + Ord + std::fmt::Debug>(
        snap: &i_tree::verif::VerifSnapshot<K>,
        i: u32,
        parent: u32,
        state: &mut [u8],
        depth: usize,
        max_depth: &mut usize,
    ) -> (usize, usize, Option<(K, K)>) {
        if i == EMPTY_REF {
            return (1, 0, None);
        }
        assert!(i != 0, "sentinel linked");
        let s = &snap.slots[i as usize];
        assert_eq!(state[i as usize], 0, "slot {} used twice", i);
        state[i as usize] = 2;
        assert_eq!(s.parent, parent, "parent link");
        *max_depth = (*max_depth).max(depth);
        if s.red {
            for c in [s.left, s.right] {
                if c != EMPTY_REF {
                    assert!(!snap.slots[c as usize].red, "red-red");
                }
            }
        }
        let (bl, cl, rl) = walk(snap, s.left, i, state, depth + 1, max_depth);
        let (br, cr, rr) = walk(snap, s.right, i, state, depth + 1, max_depth);
        assert_eq!(bl, br, "black height");
        let mut lo = s.payload;
        let mut hi = s.payload;
        if let Some((a, b)) = rl {
            assert!(b < s.payload, "bst left");
            lo = a;
        }
        if let Some((a, b)) = rr {
            assert!(a > s.payload, "bst right");
            hi = b;
        }
        (bl + (!s.red) as usize, cl + cr + 1, Some((lo, hi)))
    }
    let mut max_depth = 0;
    let (_, count, _) = walk(&snap, snap.root, EMPTY_REF, &mut state, 1, &mut max_depth);
    assert_eq!(count, expected_len);
    assert!(state.iter().all(|&s| s != 0), "lost slot");
    let bound = 2.0 * ((count + 1) as f64).log2() + 1.0;
    assert!(max_depth as f64 <= bound, "height {} > {}", max_depth, bound);
    if snap.root != EMPTY_REF {
        assert!(!snap.slots[snap.root as usize].red, "root is black in this implementation");
    }
    // faithful clone
    let c = tree.verif_clone().verif_snapshot(|k, _| *k);
    assert_eq!(c.root, snap.root);
    assert_eq!(c.free, snap.free);
    assert_eq!(c.free_capacity, snap.free_capacity);
    assert_eq!(c.slots.len(), snap.slots.len());
}

#[cfg(not(feature = "verif-hooks"))]
fn check_structure<K: Copy + Ord + Default, V: Clone + Default>(_: &MapTree<K, V>, _: usize) {}

fn check_queries(tree: &MapTree<i32, String>, list: &MapList<i32, String>, model: &BTreeMap<i32, String>, lo: i32, hi: i32) {
    assert_eq!(tree.is_empty(), model.is_empty());
    assert_eq!(list.is_empty(), model.is_empty());
    for k in lo..=hi {
        assert_eq!(tree.get_value(k), model.get(&k));
        assert_eq!(list.get_value(k), model.get(&k));
        let expect = model.range(..=k).next_back();
        let a = tree.first_index_less(k);
        let b = tree.first_index_less_by(|s| s.cmp(&k));
        assert_eq!(a, b);
        let la = list.first_index_less(k);
        match expect {
            None => {
                assert_eq!(a, EMPTY_REF);
                assert_eq!(la, EMPTY_REF);
            }
            Some((_, v)) => {
                assert_ne!(a, EMPTY_REF);
                assert_eq!(tree.value_by_index(a), v);
                assert_eq!(list.value_by_index(la), v);
            }
        }
    }
}

#[test]
fn differential_against_btreemap() {
    for seed in 0..60u64 {
        let mut rng = StdRng::seed_from_u64(seed);
        let range: i32 = [8, 40, 200][(seed % 3) as usize];
        let cap = [0usize, 1, 3, 64][(seed % 4) as usize];
        let mut tree: MapTree<i32, String> = MapTree::new(cap);
        let mut list: MapList<i32, String> = MapList::new(cap);
        let mut model: BTreeMap<i32, String> = BTreeMap::new();
        let mut serial = 0u32;
        // handles taken since the last deletion / clear: (handle, key)
        let mut handles: Vec<(u32, i32)> = Vec::new();

        for step in 0..1500 {
            let op = rng.random_range(0..100);
            let k = rng.random_range(-range..=range);
            if op < 45 {
                if !model.contains_key(&k) {
                    serial += 1;
                    let v = format!("v{}_{}", k, serial);
                    tree.insert(k, v.clone());
                    list.insert(k, v.clone());
                    model.insert(k, v);
                    let h = tree.first_index_less(k);
                    handles.push((h, k));
                }
            } else if op < 70 {
                tree.delete(k);
                list.delete(k);
                model.remove(&k);
                handles.clear();
            } else if op < 82 {
                let h = tree.first_index_less_by(|s| s.cmp(&k));
                let lh = list.first_index_less(k);
                if let Some((&fk, _)) = model.range(..=k).next_back() {
                    tree.delete_by_index(h);
                    list.delete_by_index(lh);
                    model.remove(&fk);
                } else {
                    assert_eq!(h, EMPTY_REF);
                    assert_eq!(lh, EMPTY_REF);
                }
                handles.clear();
            } else if op < 92 {
                let h = tree.first_index_less(k);
                let lh = list.first_index_less(k);
                if let Some((_, v)) = model.range_mut(..=k).next_back() {
                    serial += 1;
                    v.push_str(&format!("+{}", serial));
                    tree.value_by_index_mut(h).push_str(&format!("+{}", serial));
                    list.value_by_index_mut(lh).push_str(&format!("+{}", serial));
                }
            } else if op < 94 {
                tree.clear();
                list.clear();
                model.clear();
                handles.clear();
                assert!(tree.is_empty());
            }

            check_structure(&tree, model.len());
            for &(h, hk) in &handles {
                assert_eq!(tree.value_by_index(h), &model[&hk], "handle moved by insertion");
            }
            if step % 7 == 0 {
                check_queries(&tree, &list, &model, -range - 1, range + 1);
            }
        }
        check_queries(&tree, &list, &model, -range - 1, range + 1);
    }
}

#[test]
fn ascending_descending_and_drain() {
    for n in [1usize, 2, 3, 7, 8, 9, 100, 1000] {
        for cap in [0usize, 5, 2000] {
            let mut tree: MapTree<u32, u32> = MapTree::new(cap);
            for i in 0..n as u32 {
                tree.insert(i, i * 3);
                check_structure(&tree, i as usize + 1);
            }
            // delete from the middle outwards, then re-fill descending
            let mut left: Vec<u32> = (0..n as u32).collect();
            let mut len = n;
            while !left.is_empty() {
                let k = left.remove(left.len() / 2);
                tree.delete(k);
                tree.delete(k); // absent: no-op
                len -= 1;
                check_structure(&tree, len);
                assert_eq!(tree.get_value(k), None);
                for &o in left.iter().take(3) {
                    assert_eq!(tree.get_value(o), Some(&(o * 3)));
                }
            }
            assert!(tree.is_empty());
            for i in (0..n as u32).rev() {
                tree.insert(i, i);
            }
            check_structure(&tree, n);
            tree.clear();
            check_structure(&tree, 0);
            assert!(tree.is_empty());
            assert_eq!(tree.first_index_less(u32::MAX), EMPTY_REF);
        }
    }
}

#[cfg(feature = "verif-hooks")]
#[test]
fn storage_is_bounded_by_peak() {
    let mut rng = StdRng::seed_from_u64(77);
    for cap in [0usize, 4, 10_000] {
        let mut tree: MapTree<u32, u32> = MapTree::new(cap);
        let mut model: BTreeMap<u32, u32> = BTreeMap::new();
        let peak = 50usize;
        for round in 0..20_000u32 {
            let k = rng.random_range(0..200u32);
            if model.contains_key(&k) {
                tree.delete(k);
                model.remove(&k);
            } else if model.len() < peak {
                tree.insert(k, round);
                model.insert(k, round);
            }
            if round % 997 == 0 {
                tree.clear();
                model.clear();
            }
        }
        let snap = tree.verif_snapshot(|k, _| *k);
        assert!(snap.slots.len() <= 8 * peak + 2 * cap.max(8) + 64, "{} slots", snap.slots.len());
        check_structure(&tree, model.len());
    }
}

// ---- panicking comparison ------------------------------------------------------------------

thread_local! {
    static FUSE: Cell<i64> = const { Cell::new(i64::MAX) };
}

#[derive(Clone, Copy, Default, Debug, PartialEq, Eq)]
struct PK(i32);

impl PartialOrd for PK {
    fn partial_cmp(&self, other: &Self) -> Option<Ordering> {
        Some(self.cmp(other))
    }
}

impl Ord for PK {
    fn cmp(&self, other: &Self) -> Ordering {
        FUSE.with(|f| {
            let v = f.get();
            if v == 0 {
                f.set(i64::MAX);
                panic!("fuse");
            }
            if v != i64::MAX {
                f.set(v - 1);
            }
        });
        self.0.cmp(&other.0)
    }
}

fn contents(tree: &MapTree<PK, i32>) -> Vec<(i32, i32)> {
    (-1..70).filter_map(|k| tree.get_value(PK(k)).map(|v| (k, *v))).collect()
}

#[test]
fn panicking_comparison_is_all_or_nothing() {
    // keep the expected "fuse" panics quiet, report everything else as usual
    let default_hook = std::panic::take_hook();
    std::panic::set_hook(Box::new(move |info| {
        let fuse = info.payload().downcast_ref::<&str>().is_some_and(|s| *s == "fuse");
        if !fuse {
            default_hook(info);
        }
    }));
    let mut rng = StdRng::seed_from_u64(5);
    let mut tree: MapTree<PK, i32> = MapTree::new(0);
    let mut model: BTreeMap<i32, i32> = BTreeMap::new();
    for step in 0..4000 {
        let k = rng.random_range(0..64);
        let fuse = rng.random_range(0..12i64);
        let op = rng.random_range(0..4);
        let before = contents(&tree);
        FUSE.with(|f| f.set(fuse));
        let res = catch_unwind(AssertUnwindSafe(|| match op {
            0 | 1 => {
                if !model.contains_key(&k) {
                    tree.insert(PK(k), step);
                    return 1;
                }
                0
            }
            2 => {
                tree.delete(PK(k));
                2
            }
            _ => {
                let h = tree.first_index_less_by(|s| s.cmp(&PK(k)));
                if h != EMPTY_REF {
                    let _ = *tree.value_by_index(h);
                }
                let _ = tree.get_value(PK(k));
                0
            }
        }));
        FUSE.with(|f| f.set(i64::MAX));
        match res {
            Ok(1) => {
                model.insert(k, step);
            }
            Ok(2) => {
                model.remove(&k);
            }
            Ok(_) => {}
            Err(_) => {
                // nothing applied (all comparisons precede the first mutation)
                assert_eq!(contents(&tree), before);
            }
        }
        let expect: Vec<(i32, i32)> = model.iter().map(|(a, b)| (*a, *b)).collect();
        assert_eq!(contents(&tree), expect);
        check_structure(&tree, model.len());
    }
}
