"""Per-property workload plans: which suites run in which flavour with which monitors enabled,
how many worker processes, and what the run must have observed to count (thresholds).

A job = dict(flavour, suite, args, shards, budget[, timeout, mem_limit, seed_offset]).
Monitors enabled by `mon` decide which property a worker can report; everything else is executed
but not judged, so a check never raises an alarm for a property other than its own.
"""

GB = 1 << 30

KEY_SETS_QUICK = "3:2:8,3:4:0,4:2:1,4:3:9,5:2:8,4:4:300,5:3:0,3:6:8"
KEY_SETS_THOROUGH = "3:2:8,3:4:0,4:2:1,4:3:9,5:2:8,4:4:300,5:3:0,3:6:8,5:4:1,6:2:9,6:3:8,4:6:0,7:2:8,3:9:1,5:5:9,6:4:0"
ORD_SETS_QUICK = "maptree:7:8,settree:7:0,maptree:6:1,settree:6:9,maptree-int:6:300,settree-int:6:8,maptree:8:0,settree:8:8"
ORD_SETS_THOROUGH = ORD_SETS_QUICK + ",maptree:9:9,settree:9:1,maptree:10:8,settree:10:0,maptree:11:1,settree:11:9,maptree-int:9:0,settree-int:9:8"
MAP_SETS_QUICK = "maptree:7:8,maptree:6:1,maptree-int:6:300,maptree:8:0,maptree:5:9,maptree-int:7:8,maptree:7:0,maptree:8:9"
MAP_SETS_THOROUGH = MAP_SETS_QUICK + ",maptree:9:9,maptree:10:8,maptree:11:1,maptree-int:9:0,maptree:10:300,maptree-int:10:1,maptree:9:0,maptree:11:8"
SET_SETS_QUICK = "settree:7:8,settree:6:1,settree-int:6:300,settree:8:0,settree:5:9,settree-int:7:8,settree:7:0,settree:8:9"
SET_SETS_THOROUGH = SET_SETS_QUICK + ",settree:9:9,settree:10:8,settree:11:1,settree-int:9:0,settree:10:300,settree-int:10:1,settree:9:0,settree:11:8"

LIST_SETS_QUICK = "maplist:8:8,setlist:8:0,maplist:7:1,setlist:7:9,maplist:9:300,setlist:9:8,maplist:6:0,setlist:6:1"
LIST_SETS_THOROUGH = LIST_SETS_QUICK + ",maplist:11:8,setlist:11:0,maplist:12:1,setlist:12:9,maplist:10:0,setlist:10:8,maplist:13:9,setlist:13:1"

MIRI_KEY = dict(profile="tiny-dense,small-coincidence,clear-heavy,phased-small", maxlen=36)
MIRI_ORD = dict(profile="tiny-churn,small-mixed,clear-and-reuse,phased", maxlen=40)


def nsets(s):
    return len(s.split(","))


def key_closure(fl, mon, thorough, coll="tree", **kw):
    sets = KEY_SETS_THOROUGH if thorough else KEY_SETS_QUICK
    return dict(flavour=fl, suite="key-closure", args=dict(mon=mon, sets=sets, coll=coll, max_states=3000000 if thorough else 400000), shards=nsets(sets), timeout=3000 if thorough else 600, **kw)


def ord_closure(fl, mon, thorough, sets_q=ORD_SETS_QUICK, sets_t=ORD_SETS_THOROUGH, **extra):
    sets = sets_t if thorough else sets_q
    a = dict(mon=mon, sets=sets, max_states=3000000 if thorough else 300000)
    a.update(extra)
    return dict(flavour=fl, suite="ord-closure", args=a, shards=nsets(sets), timeout=3000 if thorough else 600)


def _noexport(a):
    """histories end with an export only for the checks that judge exports (or the process outcome)"""
    m = a.get("mon", "all")
    if not any(x in m for x in ("export", "capacity", "none", "all")):
        a["noexport"] = 1
    return a


def key_random(fl, mon, coll, budget, thorough, shards=16, **extra):
    a = dict(mon=mon, coll=coll)
    a.update(extra)
    _noexport(a)
    mult = 1 if fl == "asan" else 3  # calibrated: ~15 s per worker on 16 cores in the quick tier
    j = dict(flavour=fl, suite="key-random", args=a, shards=shards, budget=budget * mult * (8 if thorough else 1), timeout=3000 if thorough else 600)
    if "seed_offset" in a:
        j["seed_offset"] = a.pop("seed_offset")
    if "mem_limit" in a:
        j["mem_limit"] = a.pop("mem_limit")
    return j


def ord_random(fl, mon, coll, budget, thorough, shards=16, **extra):
    a = dict(mon=mon, coll=coll)
    a.update(extra)
    mult = 4 if fl == "asan" else 8
    j = dict(flavour=fl, suite="ord-random", args=a, shards=shards, budget=budget * mult * (8 if thorough else 1), timeout=3000 if thorough else 600)
    if "seed_offset" in a:
        j["seed_offset"] = a.pop("seed_offset")
    return j


def miri(suite, budget, shards, thorough, **args):
    if suite == "key-random":
        _noexport(args)
    return dict(flavour="miri", suite=suite, args=args, shards=shards * (2 if thorough else 1), budget=budget * (6 if thorough else 1), timeout=3400 if thorough else 1200, counts_for_exhaustive=False)


def exp_types(flavour, mon, kinds, coll, T, budget=3000, **extra):
    """type sweep: every Expiration type x value sizes, clocks at both ends of the type's range"""
    if flavour == "miri":
        return miri("exp-types", 1, 8, T, mon=mon, kinds=kinds, coll=coll, len=48, **extra)
    return dict(flavour=flavour, suite="exp-types", args=dict(mon=mon, kinds=kinds, coll=coll, **extra), shards=16, budget=budget * (8 if T else 1), seed_offset=77)


LEVEL_TEXT = "exploration"

# Thresholds come in two kinds. HARD ones count what the generators and reference models produced
# (operations executed, answers compared, injections made): they do not depend on how the library is
# written, and a run that misses one has not observed the property -> INCONCLUSIVE. SOFT ones count
# situations *inside* the library (physical tree shapes, which removal case ran, lazily removed
# entries met on a path, arena growth, which of the user's callbacks the library chose to call): a
# correct library with another internal policy (eager purge, predecessor instead of successor, root
# always black, `cmp` only) legitimately lowers them, so missing one is reported as a coverage note in
# the evidence and on the console, never as a verdict.
SOFT_KEYS = {
    "states", "max_buffer_len_seen", "growth_checkpoints_with_held_handles",
    "q_that_physically_removed_entries", "q_with_expired_entry_on_search_path",
    "export_with_expired_successor_of_expired_node", "export_with_previously_used_free_slots",
    "get_target_at_root", "get_target_in_left_subtree", "get_target_in_right_subtree",
    "cb_keys_one_tick_from_expiry", "outcome_contents_as_before",
}
SOFT_PREFIXES = ("removal_", "injected_")


def is_soft(key):
    return key in SOFT_KEYS or key.startswith(SOFT_PREFIXES)


def plan(prop, tier, seed):
    T = tier == "thorough"
    p = _plan(prop, T)
    if p is None:
        return None
    p.setdefault("level", "exploration")
    p.setdefault("timeout", 3000 if T else 600)
    return p


def _plan(prop, T):
    if prop == "C01":
        mon = "pred,empty,phys"
        return dict(
            jobs=[
                key_closure("dbg", mon, T),
                key_random("dbg", mon, "tree", 6400, T),
                key_random("rel", mon, "tree", 9600, T),
                dict(flavour="rel", suite="key-random", args=dict(mon="pred,empty", coll="tree", profile="marathon", noexport=1), shards=16, budget=32, timeout=3400 if T else 600, seed_offset=61),
                dict(flavour="dbg", suite="sweep-line", args=dict(mon="pred,empty,phys", coll="tree"), shards=8, budget=160 * (6 if T else 1)),
                dict(flavour="rel", suite="big", args=dict(max_n=4000000 if T else 400000, probes="kquery"), shards=16, timeout=3400 if T else 600),
                miri("key-random", 128, 8, T, mon="pred,empty", coll="tree", **MIRI_KEY),
                exp_types("dbg", "pred,empty", "key", "tree", T),
                exp_types("rel", "pred,empty", "key", "tree", T),
                exp_types("miri", "pred,empty", "key", "tree", T),
            ],
            rule="evaluation = one predecessor query (first_less / first_less_or_equal / first_less_or_equal_by with 3 monotone comparators) or is_empty compared with the flat reference model (greatest key satisfying the bound among entries with expiration > t); distinct non-trivial = distinct (reference contents relative to t, query kind, probe) with >= 2 live entries, plus every closed canonical physical state holding >= 2 entries",
            require={"typed_pred_compared": 500000, "typed_histories_u8": 1000, "typed_histories_usize": 1000, "typed_ops_within_3_of_type_max": 100000, "pred_compared_entry": 20000, "pred_compared_default": 2000, "q_with_expired_entry_on_search_path": 500, "q_that_physically_removed_entries": 1000, "q_with_t_equal_expiration_present": 1000, "op_insert_over_expired_equal_key": 500, "states": 2000, "big_key_queries": 100000, "max_entries_built": 300000},
            exhaustive_claim=False,
            exhaustive_scope="closure complete for the key-closure parameter sets listed in monitor_counters (closure_states_*); random histories sample beyond",
            assumptions=["reference model: linear scan with predicate expiration > t", "histories generated inside the contract (distinct live keys, non-decreasing time between clears, expiration >= insertion time, monotone comparators)"],
        )
    if prop == "C06":
        mon = "get,phys"
        return dict(
            jobs=[
                key_closure("dbg", mon, T),
                key_random("dbg", mon, "tree", 6400, T),
                key_random("rel", mon, "tree", 9600, T),
                key_random("dbg", mon, "tree", 1600, T, profile="lookup-sweeps", seed_offset=77),
                dict(flavour="rel", suite="key-random", args=dict(mon="get", coll="tree", profile="marathon", noexport=1), shards=16, budget=16, timeout=3400 if T else 600, seed_offset=61),
                dict(flavour="rel", suite="big", args=dict(max_n=4000000 if T else 400000, probes="kquery"), shards=16, timeout=3400 if T else 600),
                miri("key-random", 128, 8, T, mon="get", coll="tree", **MIRI_KEY),
                exp_types("dbg", "get", "key", "tree", T),
                exp_types("rel", "get", "key", "tree", T),
            ],
            rule="evaluation = one get_value compared with the reference (Some(id) iff an entry with that key has expiration > t); distinct non-trivial = distinct (reference contents relative to t, probe) with >= 2 live entries, plus closed canonical states with >= 2 entries",
            require={"typed_get_compared": 300000, "typed_histories_u8": 1000, "typed_histories_i64": 1000, "get_compared_hit": 5000, "get_compared_miss": 5000, "get_target_in_left_subtree": 300, "get_target_in_right_subtree": 300, "get_target_at_root": 100, "states": 2000, "big_key_queries": 100000},
            exhaustive_scope="every closed state x get_value of every probe 0..=2u",
            assumptions=["reference model: linear scan", "in-contract histories"],
        )
    if prop == "C07":
        mon = "export,phys"
        return dict(
            jobs=[
                key_closure("dbg", mon, T),
                key_closure("rel", mon, T, seed_offset=31),
                key_closure("dbg", "export", T, coll="list", seed_offset=32),
                key_random("dbg", mon, "both", 6400, T),
                key_random("rel", mon, "both", 9600, T),
                key_random("asan", mon, "both", 3200, T),
                dict(flavour="rel", suite="export-size", args=dict(max_n=4000000 if T else 300000), shards=16, mem_limit=(24 if T else 8) * GB, timeout=3400 if T else 600),
                miri("key-random", 96, 8, T, mon="export", coll="both", **MIRI_KEY),
                exp_types("dbg", "export", "key", "both", T),
                exp_types("rel", "export", "key", "both", T),
            ],
            rule="evaluation = one into_ordered_vec(t) (tree or list, on a fresh or cloned instance since export consumes) compared with the reference's live ids in key order; distinct non-trivial = distinct (reference contents relative to t, export time offset) with >= 2 live entries",
            require={"typed_exports_compared": 20000, "typed_histories_u16": 1000, "op_export": 5000, "export_with_t_equal_expiration": 300, "export_with_expired_present": 500, "export_with_expired_successor_of_expired_node": 100, "export_with_previously_used_free_slots": 300, "export_dropping_expired_entries": 500, "max_entries_exported": 250000},
            exhaustive_scope="every closed state x export at t, t+1, .., t+R+1",
            assumptions=["reference model: filter expiration > t, sort by key", "in-contract histories"],
        )
    if prop == "C02":
        return dict(
            jobs=[
                ord_closure("dbg", "structure,removal_stats", T),
                key_closure("dbg", "structure", T),
                ord_random("dbg", "structure,removal_stats", "maptree+settree+maptree-int+settree-int", 3200, T),
                key_random("dbg", "structure", "tree", 3200, T),
                ord_random("rel", "structure,removal_stats", "maptree+settree", 3200, T),
                dict(flavour="rel", suite="key-random", args=dict(mon="structure", coll="tree", profile="marathon", noexport=1), shards=16, budget=16, timeout=3400 if T else 600, seed_offset=61),
                dict(flavour="rel", suite="ord-random", args=dict(mon="structure", coll="maptree+settree", profile="marathon"), shards=16, budget=16 * 1, timeout=3400 if T else 600, seed_offset=62),
                dict(flavour="rel", suite="big", args=dict(max_n=4000000 if T else 800000), shards=16, timeout=3400 if T else 600),
                exp_types("dbg", "structure", "key", "tree", T),
            ],
            rule="evaluation = one hooked arena snapshot validated after a completed public call (links, strict key order, no red-red edge, equal black count, sentinel unlinked, height <= 2*log2(n+1)+1); distinct non-trivial = closed canonical shapes with >= 2 entries + distinct pre-removal configurations (children, colours of node/sibling/nephews/parent, side) + distinct (n, height) pairs of large trees",
            require={
                "snapshots_checked": 100000, "states": 3000,
                "removal_red_leaf": 100, "removal_red_sibling": 100, "removal_far_nephew_red": 100, "removal_near_nephew_red_far_black": 100,
                "removal_black_sibling_black_nephews_red_parent": 100, "removal_black_sibling_black_nephews_black_parent": 100,
                "removal_black_sibling_black_nephews_black_parent_is_root": 20, "removal_root_with_one_child": 50, "removal_two_children_red_leaf_successor": 50,
                "max_entries_seen": 500000,
            },
            exhaustive_scope="all shapes reachable by insert/delete over the listed key universes, for each of the three tree copies",
            assumptions=["snapshot hook is a faithful field-for-field read", "validator recomputes everything from raw links"],
        )
    if prop == "C03":
        return dict(
            jobs=[
                dict(flavour="dbg", suite="seg-pairs", args=dict(mon="query", variant=0), shards=16),
                dict(flavour="rel", suite="seg-pairs", args=dict(mon="query", variant=1), shards=16),
                dict(flavour="dbg", suite="seg-random", args=dict(mon="query"), shards=16, budget=24000 * 12 * (8 if T else 1)),
                dict(flavour="rel", suite="seg-random", args=dict(mon="query"), shards=16, budget=48000 * 12 * (8 if T else 1)),
                dict(flavour="dbg", suite="sweep-line", args=dict(mon="none", smon="query", seg=1, coll="tree"), shards=8, budget=160 * (6 if T else 1)),
                dict(flavour="rel", suite="seg-bulk", args=dict(mon="query", max_n=300000), shards=8),
                dict(flavour="dbg", suite="seg-bulk", args=dict(mon="query", max_n=300000), shards=8),
                miri("seg-random", 96, 8, T, mon="query", len=40),
                exp_types("dbg", "query", "seg", "seg", T),
                exp_types("rel", "query", "seg", "seg", T),
                exp_types("miri", "query", "seg", "seg", T),
                miri("seg-pairs", 1, 8, T, mon="query", variant=1, stride=528),
            ],
            rule="evaluation = one iter_by_range (fully or partially consumed) compared as a multiset with {v : exp(v) >= t and buckets(v) meet buckets(query)}; distinct non-trivial = distinct (insert range, query range) pairs on the 32-point domain + distinct (stored bucket ranges, query buckets, exp==t flags) with a non-empty expected answer",
            require={"typed_seg_queries_compared": 500000, "op_query_full": 300000, "op_query_partial": 2000, "query_with_value_expiring_exactly_at_t": 5000, "query_over_expired_value": 5000, "query_with_2plus_expected": 5000, "histories_on_domains_with_more_points_than_i64_max": 1000},
            exhaustive_claim=True,
            exhaustive_scope="all 528 x 528 (insert range, query range) pairs on the domain [0,31], in two variants (no expiry; expirations t-1 / t / later with repeated and partial queries)",
            assumptions=["independent bucket function (x-lo) >> s with s least such that 32*2^s >= len", "in-domain ranges, non-decreasing query times between clears"],
        )
    if prop in ("C04", "C05"):
        is_map = prop == "C04"
        tree = "maptree" if is_map else "settree"
        colls = "%s+%s-int" % (tree, tree)
        return dict(
            jobs=[
                ord_closure("dbg", "lookup", T, MAP_SETS_QUICK if is_map else SET_SETS_QUICK, MAP_SETS_THOROUGH if is_map else SET_SETS_THOROUGH),
                ord_random("dbg", "lookup", colls, 4800, T),
                ord_random("rel", "lookup", colls, 4800, T),
                dict(flavour="rel", suite="ord-random", args=dict(mon="lookup", coll=tree, profile="marathon"), shards=16, budget=16, timeout=3400 if T else 600, seed_offset=62),
                ord_random("asan", "lookup", colls, 1600, T),
                dict(flavour="rel", suite="big", args=dict(max_n=4000000 if T else 400000, probes="lookup", only_coll=tree), shards=16, timeout=3400 if T else 600),
                miri("ord-random", 64, 8, T, mon="lookup", coll=colls, **MIRI_ORD),
            ],
            rule="evaluation = one get_value / is_empty compared with a BTreeMap reference (full sweep over the key universe after every delete in small universes; stored keys and neighbours in large ones), values carry unique ids and heap payloads; distinct non-trivial = distinct (reference key set, operation) + closed canonical shapes with >= 2 entries",
            require={"lookup_compared_present": 200000, "lookup_compared_absent": 200000, "op_delete_present": 20000, "op_delete_absent": 2000, "op_clear": 500, "ledger_checks": 1000, "states": 1500, "big_lookups": 100000, "max_entries_built": 300000},
            exhaustive_scope="every reachable shape over the listed key universes x delete of every key (present or absent) x insert of every absent key x lookup of every key",
            assumptions=["reference: std BTreeMap", "keys inserted only while absent"],
        )
    if prop == "C08":
        return dict(
            jobs=[
                ord_closure("dbg", "handle", T),
                ord_random("dbg", "handle", "maptree+settree+maptree-int+settree-int", 4800, T),
                ord_random("rel", "handle", "maptree+settree", 4800, T),
                dict(flavour="rel", suite="ord-random", args=dict(mon="handle", coll="maptree+settree", profile="marathon"), shards=16, budget=16 * 1, timeout=3400 if T else 600, seed_offset=62),
                ord_random("asan", "handle", "maptree+settree", 1600, T),
                dict(flavour="rel", suite="big", args=dict(max_n=4000000 if T else 400000, probes="handle"), shards=16, timeout=3400 if T else 600),
                miri("ord-random", 64, 8, T, mon="handle", coll="maptree+settree", **MIRI_ORD),
            ],
            rule="evaluation = one first_index_less / first_index_less_by (3 monotone comparators) whose handle is dereferenced and compared with the reference predecessor, or one write / delete through such a handle followed by a lookup sweep; distinct non-trivial = distinct (reference key set, operation, probe) + closed canonical shapes",
            require={"handle_compared_entry": 50000, "handle_compared_sentinel": 3000, "op_write_through_handle": 5000, "op_delete_by_handle": 5000, "states": 3000, "big_handle_probes": 20000, "max_entries_built": 300000},
            exhaustive_scope="every reachable shape over the listed universes x every probe -1..=2u+1 x {key form, 3 comparators, read, write, delete}",
            assumptions=["reference: std BTreeMap", "handles used only until the next deletion"],
        )
    if prop == "C09":
        return dict(
            jobs=[
                ord_closure("dbg", "steps", T, SET_SETS_QUICK, SET_SETS_THOROUGH),
                ord_random("dbg", "steps", "settree+settree-int", 4800, T),
                ord_random("asan", "steps", "settree+settree-int", 1600, T),
                ord_random("rel", "steps", "settree", 3200, T),
                dict(flavour="rel", suite="ord-random", args=dict(mon="steps", coll="settree", profile="marathon"), shards=16, budget=16 * 1, timeout=3400 if T else 600, seed_offset=62),
                dict(flavour="rel", suite="big", args=dict(max_n=4000000 if T else 400000, probes="steps"), shards=16, timeout=3400 if T else 600),
                miri("ord-random", 64, 8, T, mon="steps", coll="settree+settree-int", **MIRI_ORD),
            ],
            rule="evaluation = one index_after / index_before from the handle of a stored key, dereferenced and compared with the next larger / smaller reference key (empty sentinel at the ends), or one full forward / backward walk compared with the reference order; distinct non-trivial = distinct (reference key set, operation, key) + closed canonical shapes",
            require={"step_compared_at_end": 3000, "step_compared_inner": 20000, "op_walk_forward": 500, "op_walk_backward": 500, "states": 1500, "big_step_probes": 20000},
            exhaustive_scope="every reachable SetTree shape over the listed universes x every stored key x both directions, plus both full walks",
            assumptions=["reference: std BTreeMap"],
        )
    if prop == "C10":
        jobs = []
        for fl, scale in (("dbg", 4), ("asan", 1)):
            jobs += [
                dict(flavour=fl, suite="key-random", args=dict(mon="none", coll="both", nojudge=1), shards=8, budget=1600 * scale * (6 if T else 1)),
                dict(flavour=fl, suite="ord-random", args=dict(mon="none", coll="maptree+settree+maplist+setlist+settree-int+maptree-int", nojudge=1), shards=8, budget=1600 * scale * (6 if T else 1)),
                dict(flavour=fl, suite="seg-random", args=dict(mon="none", nojudge=1), shards=4, budget=4000 * scale * (6 if T else 1)),
                dict(flavour=fl, suite="seg-domains", args=dict(nojudge=1), shards=8),
                dict(flavour=fl, suite="seg-pairs", args=dict(mon="none", variant=1, nojudge=1), shards=8),
                dict(flavour=fl, suite="clear-twin", args=dict(nojudge=1), shards=4, budget=1400 * scale * (6 if T else 1)),
                dict(flavour=fl, suite="key-closure", args=dict(mon="export", sets="3:2:8,4:2:0,4:3:1,5:2:9", nojudge=1), shards=4),
                dict(flavour=fl, suite="ord-closure", args=dict(mon="lookup,handle,steps", sets="maptree:6:8,settree:6:0,maptree:5:1,settree:7:9", nojudge=1), shards=4),
                dict(flavour=fl, suite="sweep-line", args=dict(mon="none", smon="none", seg=1, nojudge=1), shards=4, budget=80 * scale),
                dict(flavour=fl, suite="exp-types", args=dict(mon="none", kinds="key,seg", coll="both", nojudge=1), shards=4, budget=600 * scale * (6 if T else 1), seed_offset=78),
            ]
        jobs += [
            dict(flavour="rel", suite="export-size", args=dict(max_n=300000, nojudge=1), shards=8, mem_limit=8 * GB),
            dict(flavour="rel", suite="big", args=dict(max_n=400000, nojudge=1), shards=8, timeout=3400 if T else 600),
            dict(flavour="rel", suite="key-random", args=dict(mon="none", coll="both", profile="marathon", nojudge=1), shards=8, budget=8, timeout=3400 if T else 600),
            dict(flavour="rel", suite="ord-random", args=dict(mon="none", coll="maptree+settree+maplist+setlist", profile="marathon", nojudge=1), shards=8, budget=8, timeout=3400 if T else 600),
            dict(flavour="dbg", suite="seg-bulk", args=dict(mon="none", max_n=300000, nojudge=1), shards=8),
            dict(flavour="asan", suite="seg-bulk", args=dict(mon="none", max_n=140000, nojudge=1), shards=8),
            dict(flavour="rel", suite="big", args=dict(max_n=400000, probes="clear", nojudge=1), shards=8, timeout=3400 if T else 600),
            dict(flavour="rel", suite="big", args=dict(max_n=400000, probes="kquery", nojudge=1), shards=4, timeout=3400 if T else 600),
            dict(flavour="rel", suite="big", args=dict(max_n=400000, probes="handle", nojudge=1), shards=4, timeout=3400 if T else 600),
            dict(flavour="rel", suite="big", args=dict(max_n=400000, probes="steps", nojudge=1), shards=4, timeout=3400 if T else 600),
            dict(flavour="rel", suite="big", args=dict(max_n=400000, probes="lookup", nojudge=1), shards=4, timeout=3400 if T else 600),
            dict(flavour="rel", suite="big", args=dict(max_n=400000, probes="held", nojudge=1), shards=4, timeout=3400 if T else 600),
            dict(flavour="dbg", suite="big", args=dict(max_n=270000, probes="clear", nojudge=1), shards=8, timeout=3400 if T else 600),
            # valgrind memcheck over the optimised build (uninitialised values, invalid heap accesses, definite leaks)
            dict(flavour="vg", suite="key-random", args=dict(mon="none", coll="both", nojudge=1), shards=8, budget=2400 * (6 if T else 1), seed_offset=91),
            dict(flavour="vg", suite="ord-random", args=dict(mon="none", coll="maptree+settree+maplist+setlist+settree-int+maptree-int", nojudge=1), shards=8, budget=2400 * (6 if T else 1), seed_offset=91),
            dict(flavour="vg", suite="seg-random", args=dict(mon="none", nojudge=1), shards=4, budget=4000 * (6 if T else 1), seed_offset=91),
            dict(flavour="vg", suite="exp-types", args=dict(mon="none", kinds="key,seg", coll="both", nojudge=1), shards=4, budget=60 * (6 if T else 1), seed_offset=91),
            dict(flavour="vg", suite="seg-domains", args=dict(grid_len=24, grid_lo=4, nojudge=1, reuse_rounds=1), shards=4),
            dict(flavour="vg", suite="export-size", args=dict(max_n=20000, nojudge=1), shards=4),
            miri("key-random", 72, 6, T, mon="none", coll="both", nojudge=1, **MIRI_KEY),
            miri("ord-random", 60, 6, T, mon="none", coll="maptree+settree+maplist+setlist+settree-int", nojudge=1, **MIRI_ORD),
            miri("seg-random", 60, 4, T, mon="none", len=40, nojudge=1),
            miri("seg-domains", 1, 4, T, grid_len=20, grid_lo=1, parts="g", nojudge=1, reuse_rounds=1),
            miri("exp-types", 1, 6, T, mon="none", kinds="key,seg", coll="both", len=48, nojudge=1),
            miri("key-closure", 1, 2, T, mon="export", sets="2:2:8,2:2:0", nojudge=1),
            miri("ord-closure", 1, 2, T, mon="lookup,handle,steps", sets="maptree:3:8,settree:3:0", nojudge=1),
        ]
        return dict(
            jobs=jobs,
            rule="evaluation = one in-contract public operation executed under a crash oracle (debug assertions + overflow checks + std unsafe-precondition checks; AddressSanitizer and valgrind memcheck on the optimised build; Miri); the verdict is the process outcome only. distinct non-trivial = distinct cases reported by the suites (states / reference contents x operation)",
            require={"ops_executed": 500000, "domains_built": 1000, "op_index_after": 1000, "op_export": 1000, "op_clear": 1000},
            exhaustive_scope="process outcome of the union workload over all seven collections",
            assumptions=["ASan red zones do not see a wild access that lands in another live allocation; the dbg flavour's exact index check and Miri cover that on the paths they run", "no-hang clause decided only as: no reproduced stall of a single call"],
        )
    if prop == "C11":
        return dict(
            jobs=[
                ord_closure("dbg", "slots", T),
                key_closure("dbg", "slots", T),
                ord_random("dbg", "slots", "maptree+settree", 3200, T),
                ord_random("rel", "slots", "maptree+settree+maptree-int", 6400, T, profile="large-bounded-population,medium,clear-and-reuse", seed_offset=5),
                key_random("dbg", "slots", "tree", 3200, T),
                key_random("rel", "slots", "tree", 4800, T, profile="large,medium,insert-heavy-long-lived,clear-heavy", seed_offset=6),
                dict(flavour="rel", suite="key-random", args=dict(mon="slots", coll="tree", profile="marathon", noexport=1), shards=16, budget=16, timeout=3400 if T else 600, seed_offset=61),
                dict(flavour="rel", suite="ord-random", args=dict(mon="slots", coll="maptree+settree", profile="marathon"), shards=16, budget=16 * 1, timeout=3400 if T else 600, seed_offset=62),
                dict(flavour="rel", suite="big", args=dict(max_n=1000000 if T else 100000), shards=16, timeout=3400 if T else 600),
                dict(flavour="rel", suite="big", args=dict(max_n=4000000 if T else 400000, probes="clear"), shards=16, timeout=3400 if T else 600),
            ],
            rule="evaluation = one hooked snapshot in which {sentinel} + reachable slots + free list must partition 0..buffer.len() (and everything is free after clear), with buffer.len() <= 8*(peak+1)+2*max(hint,8)+64 (any linear growth policy passes; the shipped one stays below 3*(peak+1)+max(hint,8)); distinct non-trivial = closed canonical shapes + distinct (reference contents, operation) of the random histories",
            require={"snapshots_checked": 200000, "op_clear": 1000, "max_buffer_len_seen": 2000, "states": 3000, "big_clears_checked": 100, "max_entries_built": 300000},
            exhaustive_scope="slot accounting after every transition of the closures; bound checked along long churn",
            assumptions=["snapshot hook is faithful", "storage bound uses factor 4 where the pool's own policy gives < 3, so another linear policy is not flagged"],
        )
    if prop == "C12":
        return dict(
            jobs=[
                dict(flavour="dbg", suite="ord-closure", args=dict(mon="none", twin=1, sets=("maptree:9:8,settree:9:0,maplist:9:0,setlist:9:1,maptree:8:1,settree:8:9,maplist:10:8,setlist:10:0" if T else "maptree:7:8,settree:7:0,maplist:7:0,setlist:7:1,maptree:6:1,settree:6:9,maplist:8:8,setlist:8:0")), shards=8, timeout=3000 if T else 600),
                dict(flavour="dbg", suite="key-closure", args=dict(mon="none", twin=1, coll="tree", sets=(KEY_SETS_THOROUGH if T else KEY_SETS_QUICK)), shards=nsets(KEY_SETS_THOROUGH if T else KEY_SETS_QUICK), timeout=3000 if T else 600),
                dict(flavour="dbg", suite="key-closure", args=dict(mon="none", twin=1, coll="list", sets=(KEY_SETS_THOROUGH if T else KEY_SETS_QUICK)), shards=nsets(KEY_SETS_THOROUGH if T else KEY_SETS_QUICK), timeout=3000 if T else 600),
                dict(flavour="dbg", suite="clear-twin", args=dict(), shards=16, budget=14000 * 10 * (8 if T else 1)),
                dict(flavour="rel", suite="clear-twin", args=dict(), shards=16, budget=21000 * 10 * (8 if T else 1), seed_offset=9),
                dict(flavour="rel", suite="big", args=dict(max_n=4000000 if T else 400000, probes="clear-obs"), shards=16, timeout=3400 if T else 600),
                dict(flavour="rel", suite="seg-bulk", args=dict(mon="query", max_n=(6000000 if T else 300000)), shards=8, timeout=3400 if T else 600),
                miri("clear-twin", 28, 7, T, small=1),
            ],
            rule="evaluation = one operation executed after clear() on the cleared instance and on a freshly constructed twin (other capacity hint) with identical observations required (values by id offset, handles by dereferenced entry), reference model alongside; distinct non-trivial = distinct (history, suffix position)",
            require={"clears_checked": 10000, "clears_of_empty_collection": 500, "repeated_clears": 100, "big_clears_checked": 100},
            exhaustive_scope="sampled (prefix, suffix) pairs on all seven collections; and every closed state of the six tree / list collections over the listed key universes as the prefix (expired-but-unremoved entries, used free lists, grown arenas included) x scripted suffixes with the clock restarted at 0",
            assumptions=["numeric handle values are not compared (a cleared arena hands out slots in another order)"],
        )
    if prop == "C13":
        return dict(
            jobs=[
                key_closure("dbg", "pred,get,export,empty", T, coll="list"),
                key_random("dbg", "pred,get,export,empty", "list", 6400, T),
                key_random("rel", "pred,get,export,empty", "list", 9600, T),
                dict(flavour="rel", suite="key-random", args=dict(mon="pred,get,export,empty", coll="list", profile="marathon"), shards=16, budget=16, timeout=3400 if T else 600, seed_offset=61),
                dict(flavour="rel", suite="ord-random", args=dict(mon="lookup,handle,steps", coll="maplist+setlist", profile="marathon"), shards=16, budget=16 * 1, timeout=3400 if T else 600, seed_offset=62),
                key_random("dbg", "pred,get,export,empty", "list", 3200, T, profile="stall-clock,clear-heavy,tiny-dense", seed_offset=11),
                ord_closure("dbg", "lookup,handle,steps", T, LIST_SETS_QUICK, LIST_SETS_THOROUGH),
                ord_random("dbg", "lookup,handle,steps", "maplist+setlist", 6400, T),
                ord_random("rel", "lookup,handle,steps", "maplist+setlist", 6400, T),
                dict(flavour="dbg", suite="sweep-line", args=dict(mon="pred,get,empty", coll="list"), shards=4, budget=80),
                miri("key-random", 64, 4, T, mon="pred,get,export,empty", coll="list", **MIRI_KEY),
                exp_types("dbg", "pred,get,export,empty", "key", "list", T),
                exp_types("rel", "pred,get,export,empty", "key", "list", T),
                exp_types("miri", "pred,get,export,empty", "key", "list", T),
                miri("ord-random", 40, 4, T, mon="lookup,handle,steps", coll="maplist+setlist", **MIRI_ORD),
            ],
            rule="evaluation = one result of KeyExpList / MapList / SetList compared with the same reference models as the trees (handles are positions; steps past either end must give the empty sentinel); distinct non-trivial = distinct (reference contents, operation, probe)",
            require={"typed_pred_compared": 500000, "typed_get_compared": 300000, "typed_exports_compared": 10000, "pred_compared_entry": 20000, "get_compared_hit": 2000, "op_export": 2000, "lookup_compared_present": 100000, "handle_compared_entry": 20000, "step_compared_at_end": 2000, "step_compared_inner": 5000, "states": 5000},
            exhaustive_scope="KeyExpList: closure to a fixpoint over the listed key universes (state = buffer content + cached earliest expiration, through the verif_state hook); MapList / SetList: every subset of the listed key universes x every probe / handle operation / neighbour step; larger universes: sampled histories",
            assumptions=["reference models as for C01/C04-C09"],
        )
    if prop == "C14":
        return dict(
            jobs=[
                dict(flavour="dbg", suite="seg-domains", args=dict(grid_len=160 if T else 80, grid_lo=140 if T else 70), shards=16),
                dict(flavour="asan", suite="seg-domains", args=dict(grid_len=40, grid_lo=20), shards=8),
                dict(flavour="rel", suite="seg-domains", args=dict(grid_len=40, grid_lo=20), shards=4),
                miri("seg-domains", 1, 8, T, grid_len=24, grid_lo=2, parts="g", reuse_rounds=1),
                miri("seg-domains", 1, 8, T, parts="x", edge_step=8, reuse_rounds=1),
            ],
            rule="evaluation = one domain (construction must succeed iff it has > 16 points) or one coordinate whose stored place (hook) must be 31 + ((x-lo) >> s), s least with 32*2^s >= len, with at least 32 + bucket(hi) place lists (every usable place backed by storage), cross-checked by point queries; every built domain is then cleared and used again (twice) under the same monitors; distinct non-trivial = distinct (coordinate type, lo, len)",
            require={"domains_built": 5000, "domains_reused_after_clear": 5000, "domains_refused_as_required": 1000, "coordinates_checked": 200000, "point_queries_checked": 50000,
                     "domains_with_more_points_than_i64_max": 40},
            exhaustive_claim=True,
            exhaustive_scope="the listed grid: all i32 domains with len 1..=80 x lo -70..=70, i8/u8 corners, 2^k-1/2^k/2^k+1 for k=4..32 at 5 origins in i16/u16/i32/u32, i64 domains up to 2^62+1, 22 i64 domains of 2^63-1 .. 2^64 points",
            assumptions=["independent bucket function computed in 128-bit arithmetic"],
        )
    if prop == "C15":
        return dict(
            jobs=[
                dict(flavour="dbg", suite="seg-pairs", args=dict(mon="query,tiling,layout", variant=0), shards=16),
                dict(flavour="rel", suite="seg-pairs", args=dict(mon="query,tiling,layout", variant=0), shards=16),
                dict(flavour="dbg", suite="seg-random", args=dict(mon="tiling,layout"), shards=8, budget=8000 * 12 * (8 if T else 1)),
                dict(flavour="rel", suite="seg-bulk", args=dict(mon="query,tiling,layout", max_n=300000), shards=8),
                miri("seg-pairs", 1, 8, T, mon="query,tiling,layout", variant=0, stride=176),
            ],
            rule="evaluation = one (insert range, query range) pair on a tree over [0,31]: the value must be yielded exactly once iff the ranges overlap; and per insert the hooked stored places must tile [a,b] exactly (every bucket of the range under exactly one place, none outside; any exact tiling passes, not only the canonical decomposition) with <= 8 copies; distinct non-trivial = distinct ordered pairs + distinct insert ranges",
            require={"op_query_full": 2 * 528 * 528, "op_insert": 2 * 528, "dumps_checked": 500000},
            exhaustive_claim=True,
            exhaustive_scope="all 528 x 528 ordered pairs of bucket ranges and all 528 place masks (finite space, fully enumerated in dbg and rel)",
            assumptions=["independent tiling: recursive canonical decomposition over a 63-node heap"],
        )
    if prop == "C16":
        return dict(
            jobs=[
                dict(flavour="dbg", suite="seg-random", args=dict(mon="purge"), shards=16, budget=24000 * 12 * (8 if T else 1)),
                dict(flavour="rel", suite="seg-random", args=dict(mon="purge"), shards=16, budget=48000 * 12 * (8 if T else 1)),
                dict(flavour="rel", suite="seg-pairs", args=dict(mon="purge", variant=1), shards=16),
                dict(flavour="dbg", suite="seg-random", args=dict(mon="purge", len=3000), shards=8, budget=160 * 6 * (8 if T else 1), seed_offset=21),
                dict(flavour="dbg", suite="sweep-line", args=dict(mon="none", smon="purge", seg=1, coll="tree"), shards=8, budget=160),
                dict(flavour="rel", suite="seg-bulk", args=dict(mon="purge", max_n=300000), shards=8),
                dict(flavour="dbg", suite="seg-bulk", args=dict(mon="purge", max_n=300000), shards=8),
                exp_types("dbg", "purge", "seg", "seg", T),
                exp_types("rel", "purge", "seg", "seg", T),
            ],
            rule="evaluation = one hooked dump after a fully consumed query: after a whole-domain query at t no stored copy has expiration < t; after a partial query no expired copy remains in any list of the independently computed visit set; distinct non-trivial = distinct (stored bucket ranges, query) cases",
            require={"typed_seg_purges_checked": 100000, "purge_checked_after_whole_domain_query": 50000, "purge_checked_after_partial_domain_query": 50000, "query_over_expired_value": 50000},
            exhaustive_scope="sampled histories; the 528x528 pairs in the expiring variant",
            assumptions=["dump hook is faithful", "independent visit set: leaves of the query range and all their ancestors"],
        )
    if prop == "C17":
        return dict(
            jobs=[
                ord_closure("dbg", "held", T, held_depth=3 if T else 2),
                ord_random("dbg", "held", "maptree+settree+maptree-int+settree-int", 4800, T, profile="handles-held-across-inserts,small-mixed,medium,clear-and-reuse,phased"),
                ord_random("rel", "held", "maptree+settree", 4800, T, profile="handles-held-across-inserts,medium,phased", seed_offset=3),
                dict(flavour="rel", suite="ord-random", args=dict(mon="held", coll="maptree+settree", profile="marathon"), shards=16, budget=16 * 1, timeout=3400 if T else 600, seed_offset=62),
                dict(flavour="rel", suite="big", args=dict(max_n=4000000 if T else 1600000, probes="held"), shards=16, timeout=3400 if T else 600),
                miri("ord-random", 64, 8, T, mon="held", coll="maptree+settree", profile="handles-held-across-inserts,small-mixed,phased", maxlen=40),
                # "any number of subsequent insertions", read literally: also insertions of keys that are already stored
                dict(flavour="dbg", suite="dup-held", args=dict(), shards=16, budget=48000 * (8 if T else 1), seed_offset=5),
                dict(flavour="rel", suite="dup-held", args=dict(), shards=16, budget=96000 * (8 if T else 1), seed_offset=6),
                miri("dup-held", 24, 4, T),
            ],
            rule="evaluation = one held handle re-checked after later insertions / lookups: value_by_index(handle) is still the same entry and first_index_less(key) == handle (stationary mixes, phased fill / drain / hold / refill histories, duplicate-key insertions, ordered fills across every arena growth); distinct non-trivial = distinct (reference key set, number of held handles) + closed canonical shapes",
            require={"held_handles_rechecked": 200000, "held_handles_rechecked_after_duplicate_insert": 1000000, "handles_taken": 50000, "states": 3000, "max_entries_built": 1500000, "growth_checkpoints_with_held_handles": 100},
            exhaustive_scope="every reachable shape over the listed universes x a handle for every stored key x every sequence of 2 (thorough: 3) further insertions",
            assumptions=["handles are re-acquired after every deletion / clear, as the property allows", "after an insertion that repeats a stored key only the handles of OTHER keys are re-checked, and that key's handle is dropped for good"],
        )
    if prop == "C18":
        return dict(
            level="fault_enumeration",
            jobs=[
                dict(flavour="dbg", suite="ord-closure", args=dict(mon="lookup,handle,steps", fault=1, sets=("maptree:7:8,settree:7:0,maplist:7:0,setlist:7:1,maptree:6:1,settree:6:9,maplist:8:8,setlist:8:0" if T else "maptree:6:8,settree:6:0,maplist:6:0,setlist:6:1,maptree:5:1,settree:5:9,maplist:7:8,setlist:7:0")), shards=8, timeout=3000 if T else 600),
                dict(flavour="dbg", suite="key-closure", args=dict(mon="pred,get,export", fault=1, coll="tree", sets=("4:3:1,5:2:8,4:2:0,3:4:9" if T else "4:3:1,4:2:8,3:3:0,3:2:9")), shards=4, timeout=3000 if T else 600),
                dict(flavour="dbg", suite="key-closure", args=dict(mon="pred,get,export", fault=1, coll="list", sets=("4:3:1,5:2:8,4:2:0,3:4:9" if T else "4:3:1,4:2:8,3:3:0,3:2:9")), shards=4, timeout=3000 if T else 600),
                dict(flavour="dbg", suite="fault", args=dict(), shards=16, budget=2800 * 4 * (8 if T else 1)),
                dict(flavour="rel", suite="fault", args=dict(), shards=16, budget=2800 * 4 * (8 if T else 1), seed_offset=13),
                dict(flavour="asan", suite="fault", args=dict(), shards=8, budget=700 * 2 * (8 if T else 1), seed_offset=14),
                dict(flavour="vg", suite="fault", args=dict(), shards=8, budget=400 * (8 if T else 1), seed_offset=15),
                miri("fault", 7, 7, T, len=8, bulk=0),
            ],
            rule="evaluation = one injection point (history, operation index, callback index) enumerated exhaustively per history: the callback panics, the panic is caught, then structure + slot accounting are validated, observable contents must equal the reference before or after the operation, the rest of the history runs under all monitors, and payload drops must balance; distinct non-trivial = distinct (collection, operation, callback index, reference contents before)",
            require={"operations_enumerated": 50000, "injected_key_cmp": 1000, "injected_key_partial_cmp": 300, "injected_key_comparator": 300, "injected_key_expiration": 1000, "injected_map_key_cmp": 1000, "injected_map_comparator": 100, "injected_set_key_cmp": 1000, "injected_set_key_accessor": 1000, "injected_set_comparator": 100, "injected_seg_val_expiration": 1000, "outcome_contents_as_before": 10000},
            exhaustive_scope="every callback invocation of every operation of each generated history, on all seven collections; and, closed over small key universes, every reachable state of the six tree / list collections x every operation sequence of the closure x every callback invocation of it",
            assumptions=["histories are short (18 operations) so that all injection points are affordable", "for a panic inside a segment-tree iterator the iterator is dropped and a fresh query is compared"],
        )
    if prop == "C19":
        return dict(
            jobs=[
                dict(flavour="rel", suite="export-size", args=dict(max_n=4000000 if T else 300000), shards=16, mem_limit=(24 if T else 8) * GB, timeout=3400 if T else 600),
                key_closure("dbg", "capacity", T),
                key_random("rel", "capacity", "tree", 4800, T, mem_limit=8 * GB),
                dict(flavour="rel", suite="key-random", args=dict(mon="capacity", coll="tree", profile="marathon"), shards=16, budget=16, timeout=3400 if T else 600, seed_offset=61, mem_limit=8 * GB),
            ],
            rule="evaluation = one into_ordered_vec whose returned capacity must be <= 4n+64 (n = entries physically stored) and whose largest single allocation request (counting allocator) must be <= (4n+64)*16 bytes, under an address-space limit; distinct non-trivial = distinct (n, capacity, insertion order, expired share)",
            require={"max_entries_exported": 250000, "op_export": 3000},
            exhaustive_scope="sizes 0..=64, then x1.5 steps and 2^k-1 / 2^k up to the maximum, in 4 insertion orders, with and without expired entries (the list variant is exported too, but only the tree's capacity is judged: C19 speaks of the tree)",
            assumptions=["worker address space capped with RLIMIT_AS so that an oversized reservation fails fast"],
        )
    if prop == "C20":
        mon = "cblive"
        return dict(
            jobs=[
                key_closure("dbg", mon, T),
                key_closure("dbg", mon, T, coll="list", seed_offset=41),
                key_random("dbg", mon, "both", 6400, T),
                key_random("rel", mon, "both", 6400, T),
                dict(flavour="rel", suite="key-random", args=dict(mon="cblive", coll="both", profile="marathon", noexport=1), shards=16, budget=16, timeout=3400 if T else 600, seed_offset=61),
                dict(flavour="dbg", suite="sweep-line", args=dict(mon="cblive", coll="both"), shards=8, budget=240 * (6 if T else 1)),
                miri("key-random", 64, 4, T, mon="cblive", coll="both", **MIRI_KEY),
            ],
            rule="evaluation = (counter cb_compare_calls_observed) one recorded invocation of the key type's cmp / partial_cmp / eq or of the comparator closure during insert, the three predecessor queries or exact lookup on KeyExpTree / KeyExpList: every argument must be the operation's own key (per-operation tag) or a stored key with expiration > t; distinct non-trivial = closed canonical states + distinct (reference contents, operation)",
            require={"cb_compare_calls_observed": 1000000, "cb_keys_one_tick_from_expiry": 10000, "op_insert_over_expired_equal_key": 1000, "states": 2000},
            exhaustive_scope="every callback of every operation from every closed state",
            assumptions=["instrumented key and closure types record what user code is called with"],
        )
    return None
