//! Callback monitor and fault injector.
//!
//! Every piece of "user code" the library can call back into (key ordering, comparator closures,
//! key / expiration accessors) goes through `hit`, which counts the call, optionally records its
//! arguments, and can be armed to panic at the n-th call.  Single-threaded by construction
//! (thread-local cells), like the library under test.
use i_tree::set::sort::KeyValue;
use i_tree::{ExpiredKey, ExpiredVal};
use std::cell::{Cell, RefCell};
use std::cmp::Ordering;

#[derive(Clone, Copy, PartialEq, Eq, Debug)]
#[repr(u8)]
pub enum CbKind {
    KeyCmp = 0,
    KeyPartialCmp = 1,
    KeyEq = 2,
    KeyComparator = 3,
    KeyExpiration = 4,
    MapKeyCmp = 5,
    MapKeyPartialCmp = 6,
    MapComparator = 7,
    SetKeyCmp = 8,
    SetKeyPartialCmp = 9,
    SetKeyAccessor = 10,
    SetComparator = 11,
    SegValExpiration = 12,
    /// `Clone` of a value the caller inserted (only counted while `clone_hook(true)`)
    ValueClone = 13,
}
pub const N_KINDS: usize = 14;
pub const KIND_NAMES: [&str; N_KINDS] = [
    "key_cmp",
    "key_partial_cmp",
    "key_eq",
    "key_comparator",
    "key_expiration",
    "map_key_cmp",
    "map_key_partial_cmp",
    "map_comparator",
    "set_key_cmp",
    "set_key_partial_cmp",
    "set_key_accessor",
    "set_comparator",
    "seg_val_expiration",
    "value_clone",
];

/// (key, expiration, tag) of a key handed to user code; for non-expiring families exp = tag = 0.
pub type Arg = (i32, i32, u32);

#[derive(Clone, Copy, Debug)]
pub struct CbEvent {
    pub kind: CbKind,
    pub a: Arg,
    pub b: Arg,
}

/// payload of an injected panic (so that the panic hook and the catcher can recognise it)
pub struct Injected;

struct Ctl {
    count: Cell<u64>,
    panic_at: Cell<u64>,
    fired: Cell<bool>,
    log_on: Cell<bool>,
    log: RefCell<Vec<CbEvent>>,
    kinds: [Cell<u64>; N_KINDS],
    fired_kind: Cell<u8>,
    /// sticky: once the armed callback has panicked, every later callback panics too (a user
    /// accessor that has started failing keeps failing) until `disarm`
    sticky: Cell<bool>,
}

thread_local! {
    static CTL: Ctl = Ctl {
        count: Cell::new(0),
        panic_at: Cell::new(u64::MAX),
        fired: Cell::new(false),
        log_on: Cell::new(false),
        log: RefCell::new(Vec::new()),
        kinds: Default::default(),
        fired_kind: Cell::new(0),
        sticky: Cell::new(false),
    };
}

#[inline]
pub fn hit(kind: CbKind, a: Arg, b: Arg) {
    CTL.with(|c| {
        let n = c.count.get();
        c.count.set(n + 1);
        let kc = &c.kinds[kind as usize];
        kc.set(kc.get() + 1);
        if c.log_on.get() {
            c.log.borrow_mut().push(CbEvent { kind, a, b });
        }
        if n == c.panic_at.get() {
            if !c.sticky.get() {
                c.panic_at.set(u64::MAX);
            }
            c.fired.set(true);
            c.fired_kind.set(kind as u8);
            std::panic::panic_any(Injected);
        }
        if c.sticky.get() && c.panic_at.get() != u64::MAX && n > c.panic_at.get() {
            // the accessor keeps failing: if the library calls it again while unwinding (a drop
            // guard, say) this second panic aborts the process, which the driver reports
            std::panic::panic_any(Injected);
        }
    })
}

/// reset the per-operation call counter (not the per-kind totals)
pub fn reset_count() {
    CTL.with(|c| c.count.set(0))
}
pub fn count() -> u64 {
    CTL.with(|c| c.count.get())
}
/// arm: the call with index `n` (0-based, counted from the last `reset_count`) panics
pub fn arm(n: u64) {
    CTL.with(|c| {
        c.panic_at.set(n);
        c.fired.set(false);
    })
}
/// as `arm`, but every callback after the n-th panics as well until `disarm`
pub fn arm_sticky(n: u64) {
    CTL.with(|c| {
        c.panic_at.set(n);
        c.fired.set(false);
        c.sticky.set(true);
    })
}
pub fn disarm() {
    CTL.with(|c| {
        c.panic_at.set(u64::MAX);
        c.sticky.set(false);
    })
}
pub fn fired() -> Option<CbKind> {
    CTL.with(|c| {
        if c.fired.get() {
            Some(kind_from(c.fired_kind.get()))
        } else {
            None
        }
    })
}
fn kind_from(x: u8) -> CbKind {
    use CbKind::*;
    [
        KeyCmp,
        KeyPartialCmp,
        KeyEq,
        KeyComparator,
        KeyExpiration,
        MapKeyCmp,
        MapKeyPartialCmp,
        MapComparator,
        SetKeyCmp,
        SetKeyPartialCmp,
        SetKeyAccessor,
        SetComparator,
        SegValExpiration,
        ValueClone,
    ][x as usize]
}

thread_local! {
    static CLONE_HOOK: Cell<bool> = Cell::new(false);
}
/// while on, cloning a caller-inserted payload counts as a user callback (and can be armed to panic)
pub fn clone_hook(on: bool) {
    CLONE_HOOK.with(|c| c.set(on))
}
/// kinds of the callbacks recorded since `log_enable(true)`
pub fn log_kinds() -> Vec<CbKind> {
    CTL.with(|c| c.log.borrow().iter().map(|e| e.kind).collect())
}
pub fn log_enable(on: bool) {
    CTL.with(|c| {
        c.log_on.set(on);
        c.log.borrow_mut().clear();
    })
}
/// take and clear the recorded events
pub fn log_take(into: &mut Vec<CbEvent>) {
    CTL.with(|c| {
        let mut l = c.log.borrow_mut();
        into.clear();
        into.extend_from_slice(&l);
        l.clear();
    })
}
pub fn kind_totals() -> [u64; N_KINDS] {
    CTL.with(|c| {
        let mut out = [0u64; N_KINDS];
        for i in 0..N_KINDS {
            out[i] = c.kinds[i].get();
        }
        out
    })
}

// ---------------------------------------------------------------------------------------------
// expiring-key family

/// Key of the expiring collections. Ordering looks at `k` only; `tag` is the serial number of the
/// operation that created the key (the insert for stored keys, the query for probes).
#[derive(Clone, Copy, Debug)]
pub struct KKey {
    pub k: i32,
    pub exp: i32,
    pub tag: u32,
}

impl KKey {
    #[inline]
    pub fn arg(&self) -> Arg {
        (self.k, self.exp, self.tag)
    }
}

impl PartialEq for KKey {
    fn eq(&self, o: &Self) -> bool {
        hit(CbKind::KeyEq, self.arg(), o.arg());
        self.k == o.k
    }
}
impl Eq for KKey {}
impl PartialOrd for KKey {
    fn partial_cmp(&self, o: &Self) -> Option<Ordering> {
        hit(CbKind::KeyPartialCmp, self.arg(), o.arg());
        Some(self.k.cmp(&o.k))
    }
}
impl Ord for KKey {
    fn cmp(&self, o: &Self) -> Ordering {
        hit(CbKind::KeyCmp, self.arg(), o.arg());
        self.k.cmp(&o.k)
    }
}
impl ExpiredKey<i32> for KKey {
    fn expiration(&self) -> i32 {
        hit(CbKind::KeyExpiration, self.arg(), (0, 0, 0));
        self.exp
    }
}

// ---------------------------------------------------------------------------------------------
// heap payload with a drop ledger

thread_local! {
    static LIVE: Cell<i64> = Cell::new(0);
    static CREATED: Cell<u64> = Cell::new(0);
    static BAD_DROPS: Cell<u64> = Cell::new(0);
}
const MAGIC: u64 = 0x5EED_F00D_CAFE_0000;

/// Heap-owning payload. Every live instance (constructed, cloned or defaulted) is counted; an
/// instance whose heap cell no longer holds its own id when dropped counts as a bad drop.
#[derive(Debug)]
pub struct Payload {
    cell: Box<u64>,
    id: u64,
    /// false for the fillers the library builds itself through `Default`
    real: bool,
}

impl Payload {
    pub fn new(id: u64) -> Self {
        Self::make(id, true)
    }
    fn make(id: u64, real: bool) -> Self {
        LIVE.with(|l| l.set(l.get() + 1));
        CREATED.with(|l| l.set(l.get() + 1));
        Payload { cell: Box::new(id ^ MAGIC), id, real }
    }
    /// the payload is intact iff its heap cell still encodes its id
    #[inline]
    pub fn intact(&self) -> bool {
        *self.cell == self.id ^ MAGIC
    }
    #[inline]
    pub fn id(&self) -> u64 {
        self.id
    }
}
impl Clone for Payload {
    fn clone(&self) -> Self {
        if self.real && CLONE_HOOK.with(|c| c.get()) {
            hit(CbKind::ValueClone, (self.id as i32, 0, 0), (0, 0, 0));
        }
        Payload::make(self.id, self.real)
    }
}
impl Default for Payload {
    fn default() -> Self {
        Payload::make(0, false)
    }
}
impl Drop for Payload {
    fn drop(&mut self) {
        if *self.cell != self.id ^ MAGIC {
            BAD_DROPS.with(|l| l.set(l.get() + 1));
        }
        *self.cell = 0xDEAD_DEAD_DEAD_DEAD;
        LIVE.with(|l| l.set(l.get() - 1));
    }
}
pub fn ledger_live() -> i64 {
    LIVE.with(|l| l.get())
}
pub fn ledger_created() -> u64 {
    CREATED.with(|l| l.get())
}
pub fn ledger_bad_drops() -> u64 {
    BAD_DROPS.with(|l| l.get())
}

// ---------------------------------------------------------------------------------------------
// map family

#[derive(Clone, Copy, Debug, Default)]
pub struct MKey(pub i32);
impl PartialEq for MKey {
    fn eq(&self, o: &Self) -> bool {
        self.0 == o.0
    }
}
impl Eq for MKey {}
impl PartialOrd for MKey {
    fn partial_cmp(&self, o: &Self) -> Option<Ordering> {
        hit(CbKind::MapKeyPartialCmp, (self.0, 0, 0), (o.0, 0, 0));
        Some(self.0.cmp(&o.0))
    }
}
impl Ord for MKey {
    fn cmp(&self, o: &Self) -> Ordering {
        hit(CbKind::MapKeyCmp, (self.0, 0, 0), (o.0, 0, 0));
        self.0.cmp(&o.0)
    }
}

/// Map value: carries a copy of its key (a map handle gives access to the value only), a unique
/// id and a heap payload.
#[derive(Clone, Debug, Default)]
pub struct MVal {
    pub key_copy: i32,
    pub id: u64,
    pub pay: Payload,
}
impl MVal {
    pub fn new(k: i32, id: u64) -> Self {
        MVal { key_copy: k, id, pay: Payload::new(id) }
    }
}

// ---------------------------------------------------------------------------------------------
// set family

#[derive(Clone, Copy, Debug, Default)]
pub struct SKey(pub i32);
impl PartialEq for SKey {
    fn eq(&self, o: &Self) -> bool {
        self.0 == o.0
    }
}
impl Eq for SKey {}
impl PartialOrd for SKey {
    fn partial_cmp(&self, o: &Self) -> Option<Ordering> {
        hit(CbKind::SetKeyPartialCmp, (self.0, 0, 0), (o.0, 0, 0));
        Some(self.0.cmp(&o.0))
    }
}
impl Ord for SKey {
    fn cmp(&self, o: &Self) -> Ordering {
        hit(CbKind::SetKeyCmp, (self.0, 0, 0), (o.0, 0, 0));
        self.0.cmp(&o.0)
    }
}

#[derive(Clone, Debug, Default)]
pub struct SVal {
    pub key: SKey,
    pub id: u64,
    pub pay: Payload,
}
impl SVal {
    pub fn new(k: i32, id: u64) -> Self {
        SVal { key: SKey(k), id, pay: Payload::new(id) }
    }
}
impl KeyValue<SKey> for SVal {
    fn key(&self) -> &SKey {
        hit(CbKind::SetKeyAccessor, (self.key.0, 0, 0), (0, 0, 0));
        &self.key
    }
}

// ---------------------------------------------------------------------------------------------
// segment tree values

#[derive(Clone, Copy, Debug, PartialEq, Eq)]
pub struct SegVal {
    pub id: u32,
    pub exp: i32,
}
impl ExpiredVal<i32> for SegVal {
    fn expiration(&self) -> i32 {
        hit(CbKind::SegValExpiration, (self.id as i32, self.exp, 0), (0, 0, 0));
        self.exp
    }
}

/// install a panic hook that stays silent for injected panics and prints everything else
pub fn install_panic_hook() {
    let prev = std::panic::take_hook();
    std::panic::set_hook(Box::new(move |info| {
        if info.payload().downcast_ref::<Injected>().is_some() {
            return;
        }
        prev(info);
    }));
}
