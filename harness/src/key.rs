//! Expiring-key family: KeyExpTree / KeyExpList behind one executor with a flat reference model.
use crate::cb::{self, CbEvent, CbKind, KKey};
use crate::ctx;
use crate::report::{Fail, Obs, Report};
use crate::snap;
use crate::util::{mix, Rng};
use i_tree::key::array::IntoArray;
use i_tree::key::exp::KeyExpCollection;
use i_tree::key::list::KeyExpList;
use i_tree::key::tree::KeyExpTree;
use i_tree::verif::VerifSnapshot;
use std::cmp::Ordering;

pub const DEFAULT_ID: u64 = u64::MAX;

/// Expiration stamp carried by a *probe* key. The properties say nothing about it (a probe is
/// compared, never stored), so it takes every kind of value: far future, the query time, one
/// tick before / after it, zero, and the extremes.
#[inline]
pub fn probe_stamp(serial: u32, t: i32) -> i32 {
    match serial % 8 {
        0 => i32::MAX,
        1 => t,
        2 => t.saturating_sub(1),
        3 => t.saturating_add(1),
        4 => 0,
        5 => i32::MIN,
        6 => t.saturating_sub(1000),
        _ => i32::MAX - 1,
    }
}

/// payload of a snapshot slot: (key, expiration, id)
pub type KSnap = VerifSnapshot<(i32, i32, u64)>;

pub trait KeyColl: KeyExpCollection<KKey, i32, u64> + Sized {
    const NAME: &'static str;
    const IS_TREE: bool;
    fn make(hint: usize) -> Self;
    fn snap(&self) -> Option<KSnap>;
    fn dup(&self) -> Option<Self>;
    fn export(self, t: i32) -> Vec<u64>;
    /// canonical form of the physical state relative to time `t` (lifetimes clamped to 0..=r+1)
    /// and the number of physically stored entries; None if the state cannot be observed
    fn phys_canon(&self, t: i32, r: i32) -> Option<(Vec<u8>, usize)>;
}

impl KeyColl for KeyExpTree<KKey, i32, u64> {
    const NAME: &'static str = "KeyExpTree";
    const IS_TREE: bool = true;
    fn make(hint: usize) -> Self {
        KeyExpTree::new(hint)
    }
    fn snap(&self) -> Option<KSnap> {
        Some(self.verif_snapshot(|k, v| (k.k, k.exp, *v)))
    }
    fn dup(&self) -> Option<Self> {
        Some(self.verif_clone())
    }
    fn export(self, t: i32) -> Vec<u64> {
        self.into_ordered_vec(t)
    }
    fn phys_canon(&self, t: i32, r: i32) -> Option<(Vec<u8>, usize)> {
        let s = self.verif_snapshot(|k, v| (k.k, k.exp, *v));
        let c = snap::canonical(&s, |p, out| {
            out.push(p.0 as u8);
            out.push(p.1.saturating_sub(t).clamp(0, r + 1) as u8);
        });
        let n = c.iter().filter(|&&b| b == snap::CANON_RED || b == snap::CANON_BLACK).count();
        Some((c, n))
    }
}

impl KeyColl for KeyExpList<KKey, i32, u64> {
    const NAME: &'static str = "KeyExpList";
    const IS_TREE: bool = false;
    fn make(hint: usize) -> Self {
        KeyExpList::new(hint)
    }
    fn snap(&self) -> Option<KSnap> {
        None
    }
    fn dup(&self) -> Option<Self> {
        Some(self.verif_clone())
    }
    fn export(self, t: i32) -> Vec<u64> {
        self.into_ordered_vec(t)
    }
    fn phys_canon(&self, t: i32, r: i32) -> Option<(Vec<u8>, usize)> {
        // buffer content in order, plus the cached earliest expiration (the list's hidden state)
        let (entries, min_exp) = self.verif_state(|k, _| (k.k, k.exp));
        let mut c = Vec::with_capacity(2 * entries.len() + 2);
        for (k, e) in &entries {
            c.push(*k as u8);
            c.push(e.saturating_sub(t).clamp(0, r + 1) as u8);
        }
        c.push(0xFC);
        c.push(if min_exp == i32::MAX { 0xEE } else { min_exp.saturating_sub(t).clamp(0, r + 1) as u8 });
        Some((c, entries.len()))
    }
}

#[derive(Clone, Copy, Debug, PartialEq, Eq)]
pub enum KOp {
    Ins { k: i32, exp: i32, t: i32 },
    Get { t: i32, k: i32 },
    Fl { t: i32, k: i32 },
    Fle { t: i32, k: i32 },
    /// comparator-driven query; mode 0: exact three-way, 1: step "<= probe", 2: step "< probe"
    Fleb { t: i32, k: i32, mode: u8 },
    Empty,
    Clear,
    Export { t: i32 },
}

impl KOp {
    pub fn line(&self) -> String {
        match *self {
            KOp::Ins { k, exp, t } => format!("ins {} {} {}", k, exp, t),
            KOp::Get { t, k } => format!("get {} {}", t, k),
            KOp::Fl { t, k } => format!("fl {} {}", t, k),
            KOp::Fle { t, k } => format!("fle {} {}", t, k),
            KOp::Fleb { t, k, mode } => format!("fleb {} {} {}", t, k, mode),
            KOp::Empty => "empty".into(),
            KOp::Clear => "clear".into(),
            KOp::Export { t } => format!("export {}", t),
        }
    }
    pub fn parse(s: &str) -> Option<KOp> {
        let p: Vec<&str> = s.split_whitespace().collect();
        let n = |i: usize| -> Option<i32> { p.get(i)?.parse().ok() };
        Some(match *p.first()? {
            "ins" => KOp::Ins { k: n(1)?, exp: n(2)?, t: n(3)? },
            "get" => KOp::Get { t: n(1)?, k: n(2)? },
            "fl" => KOp::Fl { t: n(1)?, k: n(2)? },
            "fle" => KOp::Fle { t: n(1)?, k: n(2)? },
            "fleb" => KOp::Fleb { t: n(1)?, k: n(2)?, mode: n(3)? as u8 },
            "empty" => KOp::Empty,
            "clear" => KOp::Clear,
            "export" => KOp::Export { t: n(1)? },
            _ => return None,
        })
    }
    fn code(&self) -> u64 {
        match *self {
            KOp::Ins { k, exp, t } => mix(1, mix(k as u64, exp.wrapping_sub(t) as u64)),
            KOp::Get { k, .. } => mix(2, k as u64),
            KOp::Fl { k, .. } => mix(3, k as u64),
            KOp::Fle { k, .. } => mix(4, k as u64),
            KOp::Fleb { k, mode, .. } => mix(5 + mode as u64, k as u64),
            KOp::Empty => 9,
            KOp::Clear => 10,
            KOp::Export { .. } => 11,
        }
    }
}

#[derive(Clone, Copy, Debug, Default)]
pub struct KMon {
    pub pred: bool,
    pub get: bool,
    pub export: bool,
    pub empty: bool,
    pub structure: bool,
    pub slots: bool,
    pub cblive: bool,
    pub phys: bool,
    pub capacity: bool,
}

impl KMon {
    pub fn from_list(list: &str) -> KMon {
        let has = |m: &str| list.split(',').any(|x| x == m || x == "all");
        KMon {
            pred: has("pred"),
            get: has("get"),
            export: has("export"),
            empty: has("empty"),
            structure: has("structure"),
            slots: has("slots"),
            cblive: has("cblive"),
            phys: has("phys"),
            capacity: has("capacity"),
        }
    }
    pub fn none() -> KMon {
        KMon::default()
    }
}

#[derive(Clone)]
pub struct KBook {
    pub model: Vec<(i32, i32, u64)>,
    pub t_last: i32,
    pub next_id: u64,
    pub serial: u32,
    pub ever_inserted: bool,
    pub peak_phys: usize,
}

pub struct KeyExec<C: KeyColl> {
    pub sut: Option<C>,
    /// flat reference model: (key, expiration, id); entries are dropped only when re-inserted or purged
    pub model: Vec<(i32, i32, u64)>,
    pub t_last: i32,
    pub next_id: u64,
    pub serial: u32,
    pub hint: usize,
    pub peak_phys: usize,
    pub last_buf_len: usize,
    pub since_snap: usize,
    pub opcount: u64,
    pub ever_inserted: bool,
    last_op_code: u64,
    log: Vec<CbEvent>,
}

impl<C: KeyColl> KeyExec<C> {
    pub fn new(hint: usize) -> Self {
        KeyExec {
            sut: Some(C::make(hint)),
            model: Vec::new(),
            t_last: i32::MIN,
            next_id: 0, // the first value is 0, i.e. equal to V::default()
            serial: 0,
            hint,
            peak_phys: 0,
            last_buf_len: 0,
            since_snap: 0,
            opcount: 0,
            ever_inserted: false,
            last_op_code: 0,
            log: Vec::new(),
        }
    }

    /// clone executor and collection (trees only)
    pub fn dup(&self) -> Option<Self> {
        let sut = self.sut.as_ref()?.dup()?;
        Some(KeyExec {
            sut: Some(sut),
            model: self.model.clone(),
            t_last: self.t_last,
            next_id: self.next_id,
            serial: self.serial,
            hint: self.hint,
            peak_phys: self.peak_phys,
            last_buf_len: self.last_buf_len,
            since_snap: self.since_snap,
            opcount: self.opcount,
            ever_inserted: self.ever_inserted,
            last_op_code: 0,
            log: Vec::new(),
        })
    }

    pub fn ctor(&self) -> String {
        format!("{} hint={}", C::NAME, self.hint)
    }

    /// everything but the collection itself
    pub fn book(&self) -> KBook {
        KBook { model: self.model.clone(), t_last: self.t_last, next_id: self.next_id, serial: self.serial, ever_inserted: self.ever_inserted, peak_phys: self.peak_phys }
    }
    pub fn set_book(&mut self, b: KBook) {
        self.model = b.model;
        self.t_last = b.t_last;
        self.next_id = b.next_id;
        self.serial = b.serial;
        self.ever_inserted = b.ever_inserted;
        self.peak_phys = b.peak_phys;
    }

    #[inline]
    fn live(&self, t: i32) -> impl Iterator<Item = &(i32, i32, u64)> {
        self.model.iter().filter(move |e| e.1 > t)
    }
    pub fn live_count(&self, t: i32) -> usize {
        self.live(t).count()
    }
    fn model_hash(&self, t: i32) -> u64 {
        let mut h = 0u64;
        for e in self.live(t) {
            h ^= mix(e.0 as u64, e.1.wrapping_sub(t) as u64);
        }
        h
    }

    fn expect_pred(&self, t: i32, p: i32, strict: bool) -> u64 {
        let mut best: Option<(i32, u64)> = None;
        for e in self.live(t) {
            let ok = if strict { e.0 < p } else { e.0 <= p };
            if ok && best.map_or(true, |b| e.0 > b.0) {
                best = Some((e.0, e.2));
            }
        }
        best.map_or(DEFAULT_ID, |b| b.1)
    }
    fn expect_get(&self, t: i32, k: i32) -> Option<u64> {
        self.live(t).find(|e| e.0 == k).map(|e| e.2)
    }
    pub fn expect_export(&self, t: i32) -> Vec<u64> {
        let mut v: Vec<(i32, u64)> = self.live(t).map(|e| (e.0, e.2)).collect();
        v.sort();
        v.into_iter().map(|e| e.1).collect()
    }

    fn time(&mut self, t: i32) -> Result<(), Fail> {
        if t < self.t_last {
            return Err(Fail::new("HARNESS:time", format!("generator moved time backwards {} -> {}", self.t_last, t)));
        }
        self.t_last = t;
        Ok(())
    }

    fn snapshot_due(&self) -> bool {
        if !C::IS_TREE {
            return false;
        }
        self.last_buf_len <= 64 || self.since_snap >= self.last_buf_len / 32
    }

    /// describe a snapshot for messages
    fn describe(s: &KSnap) -> String {
        let mut out = format!("root={} free={:?} slots=[", s.root as i64 as i32, s.free);
        for (i, n) in s.slots.iter().enumerate().take(40) {
            out.push_str(&format!(
                "{}:(p{} l{} r{} {} k{} e{}) ",
                i,
                n.parent as i32,
                n.left as i32,
                n.right as i32,
                if n.red { "R" } else { "B" },
                n.payload.0,
                n.payload.1
            ));
        }
        out.push(']');
        out
    }

    fn after(&mut self, mon: &KMon, rep: &mut Report, was_clear: bool) -> Result<(), Fail> {
        if !(mon.structure || mon.slots) || !C::IS_TREE {
            return Ok(());
        }
        self.since_snap += 1;
        if !self.snapshot_due() && !was_clear {
            return Ok(());
        }
        let s = match self.sut.as_ref().and_then(|s| s.snap()) {
            Some(s) => s,
            None => return Ok(()),
        };
        self.since_snap = 0;
        self.last_buf_len = s.slots.len();
        rep.counters.inc("snapshots_checked");
        rep.evaluations += 1;
        if mon.structure {
            match snap::check_structure(&s, |p| p.0 as i64) {
                Ok(info) => {
                    rep.counters.max("max_height_seen", info.height as u64);
                    rep.counters.max("max_entries_seen", info.n as u64);
                    if info.root_red {
                        rep.counters.inc("snapshots_with_red_root");
                    }
                }
                Err(e) => return Err(Fail::new("structure", format!("{} | {}", e, Self::describe(&s)))),
            }
        }
        if mon.slots {
            if let Err(e) = snap::check_slots(&s) {
                return Err(Fail::new("slots", format!("{} | {}", e, Self::describe(&s))));
            }
            let n = s.slots.len().saturating_sub(1 + s.free.len());
            if n > self.peak_phys {
                self.peak_phys = n;
            }
            let bound = snap::slots_bound(self.peak_phys, self.hint);
            rep.counters.max("max_buffer_len_seen", s.slots.len() as u64);
            if s.slots.len() > bound {
                return Err(Fail::new(
                    "slots-bound",
                    format!("arena has {} slots, peak population {} (bound 8*(peak+1)+2*max(hint,8)+64 = {})", s.slots.len(), self.peak_phys, bound),
                ));
            }
            if was_clear && (s.root != i_tree::EMPTY_REF || s.free.len() != s.slots.len().saturating_sub(1)) {
                return Err(Fail::new("slots-clear", format!("after clear: root {} and {} of {} slots free", s.root as i32, s.free.len(), s.slots.len().saturating_sub(1))));
            }
        }
        Ok(())
    }

    /// C20 monitor: every key handed to the caller's ordering / comparator during the operation
    /// with serial `self.serial` at time `t` is the operation's own key or a stored live key.
    fn check_cb(&mut self, t: i32, rep: &mut Report) -> Result<(), Fail> {
        let mut log = std::mem::take(&mut self.log);
        cb::log_take(&mut log);
        let serial = self.serial;
        let mut res = Ok(());
        for ev in &log {
            let args: &[cb::Arg] = match ev.kind {
                CbKind::KeyCmp | CbKind::KeyPartialCmp | CbKind::KeyEq => &[ev.a, ev.b],
                CbKind::KeyComparator => std::slice::from_ref(&ev.a),
                _ => continue,
            };
            rep.counters.inc("cb_compare_calls_observed");
            rep.evaluations += 1;
            for a in args {
                if a.2 == serial {
                    continue;
                }
                rep.counters.inc("cb_stored_keys_seen");
                if a.1 <= t {
                    res = Err(Fail::new(
                        "cb-expired",
                        format!("user comparison ({:?}) received stored key {} with expiration {} during an operation at time {}", ev.kind, a.0, a.1, t),
                    ));
                }
                if a.1 == t.wrapping_add(1) {
                    rep.counters.inc("cb_keys_one_tick_from_expiry");
                }
            }
        }
        self.log = log;
        if self.live_count(t) >= 2 {
            rep.case(mix(self.model_hash(t), mix(0xC20, self.last_op_code)));
        }
        res
    }

    /// statistics from the physical tree before a query (evidence only)
    fn phys_before(&self, t: i32, probe: Option<i32>, rep: &mut Report) -> Option<usize> {
        let s = self.sut.as_ref()?.snap()?;
        let live = snap::reachable(&s);
        let mut n = 0usize;
        let mut expired = 0usize;
        let mut teq = 0usize;
        for (i, nd) in s.slots.iter().enumerate() {
            if live[i] {
                n += 1;
                if nd.payload.1 <= t {
                    expired += 1;
                }
                if nd.payload.1 == t {
                    teq += 1;
                }
            }
        }
        if expired > 0 {
            rep.counters.inc("q_with_expired_entry_physically_present");
        }
        if teq > 0 {
            rep.counters.inc("q_with_t_equal_expiration_present");
        }
        if let Some(k) = probe {
            // where does the live entry with key k sit?
            let mut i = s.root;
            let mut depth = 0u64;
            let mut first = 0u8;
            let mut on_path_expired = false;
            let mut guard = 0;
            while i != i_tree::EMPTY_REF && (i as usize) < s.slots.len() && guard < s.slots.len() + 1 {
                guard += 1;
                let nd = &s.slots[i as usize];
                if nd.payload.1 <= t {
                    on_path_expired = true;
                }
                if nd.payload.0 == k {
                    if nd.payload.1 > t {
                        match (depth, first) {
                            (0, _) => rep.counters.inc("get_target_at_root"),
                            (_, 1) => rep.counters.inc("get_target_in_left_subtree"),
                            _ => rep.counters.inc("get_target_in_right_subtree"),
                        }
                        rep.counters.max("max_get_target_depth", depth);
                    }
                    break;
                }
                let go_left = k < nd.payload.0;
                if depth == 0 {
                    first = if go_left { 1 } else { 2 };
                }
                depth += 1;
                i = if go_left { nd.left } else { nd.right };
            }
            if on_path_expired {
                rep.counters.inc("q_with_expired_entry_on_search_path");
            }
        }
        Some(n)
    }

    fn phys_after(&self, before: Option<usize>, rep: &mut Report) {
        if let (Some(b), Some(s)) = (before, self.sut.as_ref().and_then(|s| s.snap())) {
            let n = s.slots.len().saturating_sub(1 + s.free.len());
            if n < b {
                rep.counters.inc("q_that_physically_removed_entries");
                rep.counters.add("entries_lazily_removed", (b - n) as u64);
            }
        }
    }

    pub fn step(&mut self, op: &KOp, mon: &KMon, rep: &mut Report) -> Result<Obs, Fail> {
        self.opcount += 1;
        self.last_op_code = op.code();
        if self.sut.is_none() {
            return Err(Fail::new("HARNESS:consumed", "operation after export"));
        }
        let want_phys = mon.phys && C::IS_TREE && (self.last_buf_len <= 64 || self.opcount % 16 == 0);
        let obs = match *op {
            KOp::Ins { k, exp, t } => {
                self.time(t)?;
                if exp < t {
                    return Err(Fail::new("HARNESS:exp", "generator produced expiration below insertion time"));
                }
                if self.live(t).any(|e| e.0 == k) {
                    rep.counters.inc("skipped_inapplicable");
                    return Ok(Obs::Unit);
                }
                rep.counters.inc("op_insert");
                if exp == t {
                    rep.counters.inc("op_insert_already_expired");
                }
                if self.model.iter().any(|e| e.0 == k) {
                    rep.counters.inc("op_insert_over_expired_equal_key");
                }
                self.serial += 1;
                let id = self.next_id;
                self.next_id += 1;
                if mon.cblive {
                    cb::log_enable(true);
                }
                ctx::phase(0);
                self.sut.as_mut().unwrap().insert(KKey { k, exp, tag: self.serial }, id, t);
                ctx::phase(1);
                self.model.retain(|e| e.0 != k);
                self.model.push((k, exp, id));
                self.ever_inserted = true;
                // every entry that is live right now is physically stored: a lower bound of the peak
                let lc = self.live_count(t);
                if lc > self.peak_phys {
                    self.peak_phys = lc;
                }
                if self.model.len() > 64 && self.model.len() > 2 * self.live_count(t) {
                    self.model.retain(|e| e.1 > t);
                }
                if mon.cblive {
                    self.check_cb(t, rep)?;
                }
                Obs::Unit
            }
            KOp::Get { t, k } => {
                self.time(t)?;
                rep.counters.inc("op_get");
                let before = if want_phys { self.phys_before(t, Some(k), rep) } else { None };
                self.serial += 1;
                if mon.cblive {
                    cb::log_enable(true);
                }
                ctx::phase(0);
                let got = self.sut.as_mut().unwrap().get_value(t, KKey { k, exp: probe_stamp(self.serial, t), tag: self.serial });
                ctx::phase(1);
                if mon.cblive {
                    self.check_cb(t, rep)?;
                }
                if want_phys {
                    self.phys_after(before, rep);
                }
                if mon.get {
                    let want = self.expect_get(t, k);
                    rep.evaluations += 1;
                    rep.counters.inc(if want.is_some() { "get_compared_hit" } else { "get_compared_miss" });
                    if self.live_count(t) >= 2 {
                        rep.case(mix(self.model_hash(t), op.code()));
                    }
                    if got != want {
                        let class = match (want, got) {
                            (Some(_), None) => "missed-live",
                            (None, Some(_)) => "found-dead",
                            _ => "wrong-entry",
                        };
                        return Err(Fail::new(
                            format!("get:{}", class),
                            format!("get_value(t={}, k={}) returned {:?}, reference {:?}", t, k, got, want),
                        ));
                    }
                }
                Obs::Val(got)
            }
            KOp::Fl { t, k } | KOp::Fle { t, k } | KOp::Fleb { t, k, .. } => {
                self.time(t)?;
                let before = if want_phys { self.phys_before(t, None, rep) } else { None };
                self.serial += 1;
                let serial = self.serial;
                if mon.cblive {
                    cb::log_enable(true);
                }
                let probe = KKey { k, exp: probe_stamp(serial, t), tag: serial };
                ctx::phase(0);
                let sut = self.sut.as_mut().unwrap();
                let (got, strict, name) = match *op {
                    KOp::Fl { .. } => (sut.first_less(t, DEFAULT_ID, probe), true, "first_less"),
                    KOp::Fle { .. } => (sut.first_less_or_equal(t, DEFAULT_ID, probe), false, "first_less_or_equal"),
                    KOp::Fleb { mode, .. } => {
                        let f = move |s: KKey| -> Ordering {
                            cb::hit(CbKind::KeyComparator, s.arg(), (k, 0, serial));
                            match mode {
                                0 => s.k.cmp(&k),
                                1 => {
                                    if s.k <= k {
                                        Ordering::Less
                                    } else {
                                        Ordering::Greater
                                    }
                                }
                                _ => {
                                    if s.k < k {
                                        Ordering::Less
                                    } else {
                                        Ordering::Greater
                                    }
                                }
                            }
                        };
                        (sut.first_less_or_equal_by(t, DEFAULT_ID, f), mode == 2, "first_less_or_equal_by")
                    }
                    _ => unreachable!(),
                };
                ctx::phase(1);
                rep.counters.inc(match *op {
                    KOp::Fl { .. } => "op_first_less",
                    KOp::Fle { .. } => "op_first_less_or_equal",
                    _ => "op_first_less_or_equal_by",
                });
                if mon.cblive {
                    self.check_cb(t, rep)?;
                }
                if want_phys {
                    self.phys_after(before, rep);
                }
                if mon.pred {
                    let want = self.expect_pred(t, k, strict);
                    rep.evaluations += 1;
                    if want == DEFAULT_ID {
                        rep.counters.inc("pred_compared_default");
                    } else {
                        rep.counters.inc("pred_compared_entry");
                    }
                    if self.live_count(t) >= 2 {
                        rep.case(mix(self.model_hash(t), op.code()));
                    }
                    if got != want {
                        let class = if want == DEFAULT_ID {
                            "entry-instead-of-default"
                        } else if got == DEFAULT_ID {
                            "default-instead-of-entry"
                        } else {
                            "wrong-entry"
                        };
                        let show = |id: u64| -> String {
                            if id == DEFAULT_ID {
                                "default".into()
                            } else {
                                match self.model.iter().find(|e| e.2 == id) {
                                    Some(e) => format!("id {} (key {}, exp {})", id, e.0, e.1),
                                    None => format!("id {} (no longer in the reference)", id),
                                }
                            }
                        };
                        return Err(Fail::new(
                            format!("{}:{}", name, class),
                            format!("{}(t={}, probe={}) returned {}, reference {}", name, t, k, show(got), show(want)),
                        ));
                    }
                }
                Obs::Val(Some(got))
            }
            KOp::Empty => {
                rep.counters.inc("op_is_empty");
                ctx::phase(0);
                let e = self.sut.as_ref().unwrap().is_empty();
                ctx::phase(1);
                if mon.empty {
                    rep.evaluations += 1;
                    // only: a live entry exists => not empty (physically stored expired entries may remain)
                    let live = self.t_last != i32::MIN && self.live_count(self.t_last) > 0;
                    if live && e {
                        return Err(Fail::new("is_empty:true-with-live-entry", format!("is_empty() is true while {} entries are live at t={}", self.live_count(self.t_last), self.t_last)));
                    }
                    if !self.ever_inserted && !e {
                        return Err(Fail::new("is_empty:false-when-nothing-stored", "is_empty() is false although nothing was inserted since construction/clear".to_string()));
                    }
                }
                // observation for twins: emptiness is only comparable when nothing was ever stored
                Obs::Bool(e)
            }
            KOp::Clear => {
                rep.counters.inc("op_clear");
                ctx::phase(0);
                self.sut.as_mut().unwrap().clear();
                ctx::phase(1);
                self.model.clear();
                self.ever_inserted = false;
                self.t_last = i32::MIN;
                self.after(mon, rep, true)?;
                return Ok(Obs::Unit);
            }
            KOp::Export { t } => {
                self.time(t)?;
                rep.counters.inc("op_export");
                let mut phys = None;
                if C::IS_TREE && (mon.capacity || mon.phys) {
                    if let Some(s) = self.sut.as_ref().unwrap().snap() {
                        // entries physically stored = slots linked into the tree (a slot that is
                        // neither linked nor free must not count as an entry)
                        let n = snap::reachable(&s).iter().filter(|x| **x).count();
                        phys = Some(n);
                        if mon.phys {
                            let live = snap::reachable(&s);
                            let mut teq = false;
                            let mut expired = 0;
                            for (i, nd) in s.slots.iter().enumerate() {
                                if live[i] {
                                    teq |= nd.payload.1 == t;
                                    if nd.payload.1 <= t {
                                        expired += 1;
                                        // expired node with two children whose in-order successor is expired too
                                        if nd.left != i_tree::EMPTY_REF && nd.right != i_tree::EMPTY_REF {
                                            let mut j = nd.right;
                                            let mut g = 0;
                                            while (j as usize) < s.slots.len() && s.slots[j as usize].left != i_tree::EMPTY_REF && g < s.slots.len() {
                                                j = s.slots[j as usize].left;
                                                g += 1;
                                            }
                                            if (j as usize) < s.slots.len() && s.slots[j as usize].payload.1 <= t {
                                                rep.counters.inc("export_with_expired_successor_of_expired_node");
                                            }
                                        }
                                    }
                                }
                            }
                            if teq {
                                rep.counters.inc("export_with_t_equal_expiration");
                            }
                            if expired > 0 {
                                rep.counters.inc("export_with_expired_present");
                            }
                            if s.free.iter().any(|&f| {
                                let x = &s.slots[f as usize];
                                x.parent != 0 || x.left != 0 || x.right != 0
                            }) {
                                rep.counters.inc("export_with_previously_used_free_slots");
                            }
                        }
                    }
                }
                let sut = self.sut.take().unwrap();
                ctx::phase(0);
                let got = sut.export(t);
                ctx::phase(1);
                // C19 speaks of the tree's export; the list variant may keep its own allocation
                if mon.capacity && C::IS_TREE {
                    let n = phys.unwrap_or_else(|| self.model.len());
                    rep.evaluations += 1;
                    rep.counters.max("max_export_capacity", got.capacity() as u64);
                    rep.case(mix(n as u64, got.capacity() as u64));
                    if got.capacity() > 4 * n + 64 {
                        return Err(Fail::new("export:capacity", format!("into_ordered_vec returned capacity {} for {} stored entries (limit 4n+64 = {})", got.capacity(), n, 4 * n + 64)));
                    }
                }
                if mon.export {
                    let want = self.expect_export(t);
                    rep.evaluations += 1;
                    if want.len() >= 2 {
                        rep.case(mix(self.model_hash(t), mix(op.code(), self.model.len() as u64)));
                    }
                    if want.len() < self.model.len() {
                        rep.counters.inc("export_dropping_expired_entries");
                    }
                    if got != want {
                        let class = if got.len() > want.len() {
                            "extra-entries"
                        } else if got.len() < want.len() {
                            "missing-entries"
                        } else {
                            "wrong-order-or-entry"
                        };
                        return Err(Fail::new(
                            format!("export:{}", class),
                            format!("into_ordered_vec(t={}) returned ids {:?}, reference {:?}; reference entries (key,exp,id): {:?}", t, got, want, self.model),
                        ));
                    }
                }
                return Ok(Obs::List(got));
            }
        };
        self.after(mon, rep, false)?;
        Ok(obs)
    }
}

// ---------------------------------------------------------------------------------------------
// random history generator

#[derive(Clone, Debug)]
pub struct KProf {
    pub name: &'static str,
    pub u: i32,
    pub len: usize,
    pub r: i32,
    pub tick_num: u64,
    pub tick_den: u64,
    pub tick_jump: i32,
    pub w: [u32; 7], // ins get fl fle fleb empty clear
    pub order: u8,   // 0 random 1 ascending 2 descending 3 organ pipe
    pub hint: usize,
    pub sweep_every: usize,
    pub export_end: bool,
    /// the clock starts near this value (extreme clocks: close to i32::MAX / i32::MIN)
    pub t_base: i32,
    /// one insert in `immortal` gets expiration i32::MAX (E::max_expiration()); 0 = never
    pub immortal: u64,
}

pub const HINTS: [usize; 6] = [0, 1, 8, 9, 300, 17];

pub fn profiles(thorough: bool) -> Vec<KProf> {
    let base = KProf { name: "", u: 6, len: 60, r: 3, tick_num: 1, tick_den: 3, tick_jump: 2, w: [30, 10, 12, 12, 16, 2, 1], order: 0, hint: 8, sweep_every: 0, export_end: true, t_base: 0, immortal: 0 };
    let big = if thorough { 4 } else { 1 };
    vec![
        KProf { name: "tiny-dense", u: 4, len: 50, r: 2, ..base.clone() },
        KProf { name: "small-coincidence", u: 7, len: 80, r: 3, tick_num: 1, tick_den: 2, tick_jump: 1, ..base.clone() },
        KProf { name: "stall-clock", u: 10, len: 120, r: 4, tick_num: 1, tick_den: 12, tick_jump: 3, ..base.clone() },
        KProf { name: "fast-clock", u: 10, len: 100, r: 6, tick_num: 2, tick_den: 3, tick_jump: 4, ..base.clone() },
        KProf { name: "ascending", u: 14, len: 120, r: 5, order: 1, ..base.clone() },
        KProf { name: "descending", u: 14, len: 120, r: 5, order: 2, ..base.clone() },
        KProf { name: "organ-pipe", u: 14, len: 120, r: 5, order: 3, ..base.clone() },
        KProf { name: "lookup-sweeps", u: 8, len: 60, r: 3, sweep_every: 5, w: [30, 20, 6, 6, 8, 2, 1], ..base.clone() },
        KProf { name: "insert-heavy-long-lived", u: 40, len: 300, r: 60, tick_num: 1, tick_den: 4, tick_jump: 3, w: [50, 10, 10, 10, 10, 1, 1], ..base.clone() },
        KProf { name: "medium", u: 120, len: 900 * big, r: 40, tick_num: 1, tick_den: 3, tick_jump: 5, w: [40, 12, 12, 12, 14, 1, 1], ..base.clone() },
        KProf { name: "large", u: 1500, len: 5000 * big, r: 700, tick_num: 1, tick_den: 3, tick_jump: 30, w: [55, 10, 10, 10, 10, 1, 0], ..base.clone() },
        // regime changes: bursts that fill the whole universe at one time, clock jumps that land exactly
        // on / just before / beyond the latest expiration (mass expiry with or without survivors), then
        // queries and re-insertions into a tree that is physically full of dead entries
        KProf { name: "phased", u: 150, len: 700, r: 30, tick_num: 1, tick_den: 4, tick_jump: 3, w: [30, 12, 12, 12, 14, 1, 1], ..base.clone() },
        KProf { name: "phased-small", u: 9, len: 90, r: 4, tick_num: 1, tick_den: 4, tick_jump: 2, ..base.clone() },
        KProf { name: "clear-heavy", u: 8, len: 90, r: 3, w: [30, 10, 10, 10, 10, 4, 8], ..base.clone() },
        KProf { name: "clock-near-max", u: 7, len: 90, r: 3, tick_num: 1, tick_den: 2, tick_jump: 2, t_base: i32::MAX - 400, immortal: 6, ..base.clone() },
        KProf { name: "clock-near-min", u: 7, len: 90, r: 3, tick_num: 1, tick_den: 2, tick_jump: 2, t_base: i32::MIN + 4, immortal: 6, ..base.clone() },
        KProf { name: "immortal-entries", u: 12, len: 140, r: 4, immortal: 3, ..base.clone() },
        // one instance driven for millions of operations (behaviour keyed on operation counts,
        // wrap-arounds, slow drift); only selected explicitly with --profile marathon
        KProf { name: "marathon", u: 40, len: 4_800_000 * big, r: 7, tick_num: 1, tick_den: 3, tick_jump: 2, w: [40, 10, 10, 10, 12, 1, 0], export_end: true, ..base.clone() },
    ]
}

/// Generate one in-contract history. Keys are the even numbers 0,2,..,2u-2 (0 is the key of the
/// library's zeroed default node), probes -1..=2u-1.
pub fn gen_history(p: &KProf, rng: &mut Rng) -> (usize, Vec<KOp>) {
    let hint = if p.hint == 8 { *rng.pick(&HINTS) } else { p.hint };
    let mut ops = Vec::with_capacity(p.len + 8);
    let mut t: i32 = p.t_base + rng.range(-3, 5) as i32;
    // generator-side bookkeeping of expirations (contract enforcement): exp per key index, i32::MIN = never
    let mut exp: Vec<i32> = vec![i32::MIN; p.u as usize];
    let mut cursor: i32 = 0; // for ordered insertion
    let wsum: u32 = p.w.iter().sum();
    let mut stall = 0;
    while ops.len() < p.len {
        if stall > 0 {
            stall -= 1;
        } else if rng.chance(p.tick_num, p.tick_den) {
            t = t.saturating_add(rng.range(1, p.tick_jump as i64) as i32).min(i32::MAX - 1);
        } else if rng.chance(1, 40) {
            stall = rng.range(5, 25);
        }
        if p.name.starts_with("phased") && rng.chance(1, if p.u > 20 { 60 } else { 25 }) {
            if rng.chance(1, 2) {
                // burst: every key that is not live is inserted now, in one order, lifetimes 1 / r / 3r
                let free: Vec<i32> = (0..p.u).filter(|&i| exp[i as usize] <= t).collect();
                let mut order: Vec<i32> = free.clone();
                match rng.below(3) {
                    0 => order.reverse(),
                    1 => rng.shuffle(&mut order),
                    _ => {}
                }
                let keep = rng.range(order.len() as i64 / 2, order.len() as i64) as usize;
                for &i in order.iter().take(keep) {
                    let d = *rng.pick(&[1, p.r, 3 * p.r, p.r / 2 + 1]);
                    let e = t.saturating_add(d);
                    exp[i as usize] = e;
                    ops.push(KOp::Ins { k: 2 * i, exp: e, t });
                }
            } else {
                // clock jump relative to the latest expiration still pending
                let hi = exp.iter().copied().filter(|&e| e > t && e != i32::MAX).max();
                if let Some(hi) = hi {
                    t = match rng.below(4) {
                        0 => hi,                              // exactly at the last expiration: nothing is live
                        1 => hi.saturating_sub(1),            // one tick before: only the longest-lived survive
                        2 => hi.saturating_add(rng.range(1, 5) as i32).min(i32::MAX - 1),
                        _ => (t as i64 + (hi as i64 - t as i64) / 2) as i32, // half of them gone
                    }
                    .max(t);
                }
                // and look at the graveyard from several sides before anything else happens
                for _ in 0..rng.range(1, 4) {
                    let k = rng.range(-1, 2 * p.u as i64 - 1) as i32;
                    ops.push(match rng.below(4) {
                        0 => KOp::Get { t, k },
                        1 => KOp::Fl { t, k },
                        2 => KOp::Fle { t, k },
                        _ => KOp::Fleb { t, k, mode: rng.below(3) as u8 },
                    });
                }
            }
        }
        let mut x = rng.below(wsum as u64) as u32;
        let mut kind = 0;
        for (i, w) in p.w.iter().enumerate() {
            if x < *w {
                kind = i;
                break;
            }
            x -= *w;
        }
        let probe = |rng: &mut Rng, exp: &Vec<i32>| -> i32 {
            if rng.chance(1, 2) {
                // next to a physically plausible key
                let i = rng.below(p.u as u64) as i32;
                let _ = exp;
                2 * i + rng.range(-1, 1) as i32
            } else {
                rng.range(-1, 2 * p.u as i64 - 1) as i32
            }
        };
        match kind {
            0 => {
                // candidates: keys not live at t
                let free: Vec<i32> = (0..p.u).filter(|&i| exp[i as usize] <= t).collect();
                if free.is_empty() {
                    ops.push(KOp::Fle { t, k: probe(rng, &exp) });
                    continue;
                }
                let i = match p.order {
                    1 => {
                        let c = free.iter().copied().find(|&i| i >= cursor).unwrap_or(free[0]);
                        cursor = (c + 1) % p.u;
                        c
                    }
                    2 => {
                        let c = free.iter().rev().copied().find(|&i| i <= p.u - 1 - cursor).unwrap_or(*free.last().unwrap());
                        cursor = (p.u - c) % p.u;
                        c
                    }
                    3 => {
                        let c = if cursor % 2 == 0 { free[0] } else { *free.last().unwrap() };
                        cursor += 1;
                        c
                    }
                    _ => {
                        // prefer re-inserting a key that expired (slot reuse / expired equal key on the path)
                        let expired: Vec<i32> = free.iter().copied().filter(|&i| exp[i as usize] != i32::MIN).collect();
                        if !expired.is_empty() && rng.chance(1, 2) {
                            *rng.pick(&expired)
                        } else {
                            *rng.pick(&free)
                        }
                    }
                };
                let d = if rng.chance(1, 3) { rng.range(0, 1.min(p.r as i64)) } else { rng.range(0, p.r as i64) } as i32;
                let e = if p.immortal > 0 && rng.chance(1, p.immortal) { i32::MAX } else { t.saturating_add(d) };
                exp[i as usize] = e;
                ops.push(KOp::Ins { k: 2 * i, exp: e, t });
            }
            1 => ops.push(KOp::Get { t, k: probe(rng, &exp) }),
            2 => ops.push(KOp::Fl { t, k: probe(rng, &exp) }),
            3 => ops.push(KOp::Fle { t, k: probe(rng, &exp) }),
            4 => ops.push(KOp::Fleb { t, k: probe(rng, &exp), mode: rng.below(3) as u8 }),
            5 => ops.push(KOp::Empty),
            _ => {
                ops.push(KOp::Clear);
                for e in exp.iter_mut() {
                    *e = i32::MIN;
                }
                // the caller's clock may restart after a clear
                if rng.chance(1, 2) {
                    t = rng.range(p.t_base as i64 - 3, t as i64) as i32;
                }
            }
        }
        if p.sweep_every > 0 && ops.len() % p.sweep_every == 0 {
            for q in -1..2 * p.u {
                ops.push(KOp::Get { t, k: q });
            }
        }
    }
    if p.immortal > 0 && rng.chance(1, 2) {
        // the clock reaches E::max_expiration() itself: nothing is live any more, immortal entries included
        t = i32::MAX;
        for _ in 0..6 {
            let k = rng.range(-1, 2 * p.u as i64 - 1) as i32;
            ops.push(match rng.below(5) {
                0 => KOp::Get { t, k },
                1 => KOp::Fl { t, k },
                2 => KOp::Fle { t, k },
                3 => KOp::Fleb { t, k, mode: rng.below(3) as u8 },
                _ => KOp::Ins { k: 2 * rng.below(p.u as u64) as i32, exp: i32::MAX, t },
            });
        }
        for e in exp.iter_mut() {
            *e = i32::MIN;
        }
    }
    if p.export_end {
        // below all / equal to some / between / above all expirations
        let live: Vec<i32> = exp.iter().copied().filter(|&e| e > t).collect();
        let te = if live.is_empty() || rng.chance(1, 4) {
            t.saturating_add(rng.range(0, 2) as i32)
        } else if rng.chance(1, 2) {
            *rng.pick(&live) // equal to some expiration
        } else {
            let hi = *live.iter().max().unwrap();
            rng.range(t as i64, hi as i64 + 1) as i32
        };
        ops.push(KOp::Export { t: te.max(t) });
    }
    (hint, ops)
}

/// run one explicit history on a fresh instance; on a monitor firing return the executed prefix
pub fn run_history<C: KeyColl>(hint: usize, ops: &[KOp], mon: &KMon, rep: &mut Report, hist: u64) -> Result<(), (Fail, usize)> {
    ctx::set(hist, 0); // a crash inside the constructor belongs to this history too
    let mut ex = KeyExec::<C>::new(hint);
    for (i, op) in ops.iter().enumerate() {
        ctx::set(hist, i as u64);
        if let Err(f) = ex.step(op, mon, rep) {
            return Err((f, i));
        }
    }
    Ok(())
}
