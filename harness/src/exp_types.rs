//! Type sweep: the expiring collections instantiated with every `Expiration` type the library
//! implements (u8, i8, u16, i16, u32, i32, u64, i64, usize), with key / value types of several
//! sizes, driven through histories whose clock runs at both ends of the type's range (including
//! `max_expiration()` itself) and judged against a flat reference model computed in 128 bits.
//!
//! The properties speak of "time" and "expiration" without naming a type; the other suites use
//! `i32`. A change in `lib.rs` (`max_expiration`), a cast, or arithmetic on `E` only shows with
//! the other instantiations.
use crate::ctx;
use crate::report::{Cfg, Fail, Report, Viol};
use crate::seg::expected_shift;
use crate::snap;
use crate::util::{mix, Rng, J};
use i_tree::key::array::IntoArray;
use i_tree::key::exp::KeyExpCollection;
use i_tree::key::list::KeyExpList;
use i_tree::key::tree::KeyExpTree;
use i_tree::seg::exp::{SegExpCollection, SegRange};
use i_tree::seg::tree::SegExpTree;
use i_tree::{Expiration, ExpiredKey, ExpiredVal};
use std::cmp::Ordering;
use std::fmt::Debug;

pub trait ET: Expiration + Debug + 'static {
    const NAME: &'static str;
    const LO: i128;
    const HI: i128;
    fn of(x: i128) -> Self;
    fn val(self) -> i128;
}
macro_rules! et {
    ($($t:ty),*) => {$(
        impl ET for $t {
            const NAME: &'static str = stringify!($t);
            const LO: i128 = <$t>::MIN as i128;
            const HI: i128 = <$t>::MAX as i128;
            #[inline]
            fn of(x: i128) -> Self { debug_assert!(x >= Self::LO && x <= Self::HI); x as $t }
            #[inline]
            fn val(self) -> i128 { self as i128 }
        }
    )*};
}
et!(u8, i8, u16, i16, u32, i32, u64, i64, usize);

/// key ordered by `k` only; carries its expiration
#[derive(Clone, Copy, Debug)]
pub struct TK<E> {
    pub k: i32,
    pub e: E,
}
impl<E> PartialEq for TK<E> {
    fn eq(&self, o: &Self) -> bool {
        self.k == o.k
    }
}
impl<E> Eq for TK<E> {}
impl<E> PartialOrd for TK<E> {
    fn partial_cmp(&self, o: &Self) -> Option<Ordering> {
        Some(self.k.cmp(&o.k))
    }
}
impl<E> Ord for TK<E> {
    fn cmp(&self, o: &Self) -> Ordering {
        self.k.cmp(&o.k)
    }
}
impl<E: ET> ExpiredKey<E> for TK<E> {
    fn expiration(&self) -> E {
        self.e
    }
}

/// value types of several sizes
pub trait VT: Copy + PartialEq + Debug + 'static {
    const NAME: &'static str;
    fn mk(id: u64) -> Self;
    fn id(&self) -> u64;
}
impl VT for u16 {
    const NAME: &'static str = "u16";
    fn mk(id: u64) -> Self {
        id as u16
    }
    fn id(&self) -> u64 {
        *self as u64
    }
}
impl VT for u64 {
    const NAME: &'static str = "u64";
    fn mk(id: u64) -> Self {
        id
    }
    fn id(&self) -> u64 {
        *self
    }
}
#[derive(Clone, Copy, PartialEq, Debug)]
pub struct Fat([u64; 3]);
impl VT for Fat {
    const NAME: &'static str = "[u64;3]";
    fn mk(id: u64) -> Self {
        Fat([id, !id, id.rotate_left(17)])
    }
    fn id(&self) -> u64 {
        if self.0[1] != !self.0[0] || self.0[2] != self.0[0].rotate_left(17) {
            return u64::MAX; // torn value
        }
        self.0[0]
    }
}

#[derive(Clone, Copy, Debug)]
pub enum TOp {
    Ins { k: i32, exp: i128 },
    Get { k: i32 },
    Less { k: i32 },
    Leq { k: i32 },
    LeqBy { k: i32 },
    Empty,
    Clear,
    Tick { t: i128 },
}
impl TOp {
    pub fn line(&self) -> String {
        match self {
            TOp::Ins { k, exp } => format!("ins k={} exp={}", k, exp),
            TOp::Get { k } => format!("get k={}", k),
            TOp::Less { k } => format!("less k={}", k),
            TOp::Leq { k } => format!("leq k={}", k),
            TOp::LeqBy { k } => format!("leq_by k={}", k),
            TOp::Empty => "is_empty".into(),
            TOp::Clear => "clear".into(),
            TOp::Tick { t } => format!("time={}", t),
        }
    }
}

/// history for an expiration type with range [lo, hi]; returns (ops, export time)
pub fn gen_history(rng: &mut Rng, lo: i128, hi: i128, h: u64, len: usize) -> (Vec<TOp>, i128) {
    let width = hi - lo;
    let span = (width / 3).min(80);
    let bases: [i128; 4] = [lo, lo + 1, if lo <= 0 && 0 <= hi - span { 0 } else { lo + span }, hi - span];
    let base = bases[(h % 4) as usize];
    let u = 4 + (h % 9) as i32; // keys 0..u
    let mut t = base;
    let mut ops = vec![TOp::Tick { t }];
    // model: (k, exp)
    let mut live: Vec<(i32, i128)> = Vec::new();
    let tail_at = len * 3 / 4;
    while ops.len() < len {
        // the last quarter of every history runs right below the top of the type's range
        if ops.len() == tail_at && h % 2 == 0 && t < hi - 3 {
            t = hi - 3;
            ops.push(TOp::Tick { t });
        }
        if rng.chance(1, 3) && t < hi {
            t = (t + rng.range(1, 2) as i128).min(hi);
            ops.push(TOp::Tick { t });
        }
        live.retain(|e| e.1 > t);
        let k = rng.range(-1, u as i64) as i32;
        match rng.below(100) {
            0..=39 => {
                let k = rng.range(0, u as i64 - 1) as i32;
                if live.iter().any(|e| e.0 == k) {
                    ops.push(TOp::Get { k });
                    continue;
                }
                let exp = match rng.below(8) {
                    0 => t,
                    1 => (t + 1).min(hi),
                    2 | 3 => hi,
                    4 => (hi - 1).max(t),
                    _ => (t + rng.range(0, 12) as i128).min(hi),
                };
                live.push((k, exp));
                ops.push(TOp::Ins { k, exp });
            }
            40..=54 => ops.push(TOp::Get { k }),
            55..=66 => ops.push(TOp::Less { k }),
            67..=78 => ops.push(TOp::Leq { k }),
            79..=90 => ops.push(TOp::LeqBy { k }),
            91..=95 => ops.push(TOp::Empty),
            _ => {
                ops.push(TOp::Clear);
                live.clear();
                if rng.chance(1, 2) {
                    t = base;
                    ops.push(TOp::Tick { t });
                }
            }
        }
    }
    // finish at the very top of the range in half of the histories
    let t_export = if h % 2 == 0 { hi } else { t };
    (ops, t_export)
}

const DEFAULT_ID: u64 = 65_000;

fn has(mon: &str, m: &str) -> bool {
    mon.split(',').any(|x| x == m || x == "all")
}

fn run_key<E: ET, V: VT, C>(mut c: C, tree: Option<&dyn Fn(&C) -> Result<(), Fail>>, ops: &[TOp], t_export: i128, mon: &str, rep: &mut Report, hist: u64) -> Result<(), Fail>
where
    C: KeyExpCollection<TK<E>, E, V> + IntoArray<E, V>,
{
    let mut model: Vec<(i32, i128, u64)> = Vec::new();
    let mut t: i128 = E::LO;
    let mut next_id = 0u64;
    let dflt = V::mk(DEFAULT_ID);
    let (m_pred, m_get, m_export, m_empty) = (has(mon, "pred"), has(mon, "get"), has(mon, "export"), has(mon, "empty"));
    for (i, op) in ops.iter().enumerate() {
        ctx::set(hist, i as u64);
        rep.evaluations += 1;
        if let TOp::Tick { t: nt } = *op {
            t = nt;
            continue;
        }
        let t = t;
        let te = E::of(t);
        // probe keys carry an arbitrary expiration stamp: they are compared, never stored
        let probe = |k: i32| TK { k, e: E::of(if k % 2 == 0 { E::LO } else { E::HI }) };
        let visible = |m: &Vec<(i32, i128, u64)>, pred: &dyn Fn(i32) -> bool| -> Option<u64> { m.iter().filter(|e| e.1 > t && pred(e.0)).max_by_key(|e| e.0).map(|e| e.2) };
        match *op {
            TOp::Tick { .. } => {}
            TOp::Ins { k, exp } => {
                model.retain(|e| e.0 != k);
                let id = next_id;
                next_id += 1;
                model.push((k, exp, id));
                c.insert(TK { k, e: E::of(exp) }, V::mk(id), te);
                rep.counters.inc("typed_inserts");
                if exp == E::HI {
                    rep.counters.inc("typed_inserts_at_max_expiration");
                }
            }
            TOp::Get { k } => {
                let want = model.iter().find(|e| e.0 == k && e.1 > t).map(|e| e.2);
                let got = c.get_value(te, probe(k)).map(|v| v.id());
                if m_get {
                    rep.counters.inc("typed_get_compared");
                }
                if m_get && got != want {
                    return Err(Fail::new("get:mismatch", format!("get_value(t={}, k={}) returned {:?}, reference {:?}", t, k, got, want)));
                }
            }
            TOp::Less { k } | TOp::Leq { k } | TOp::LeqBy { k } => {
                let (name, want, got) = match *op {
                    TOp::Less { .. } => ("first_less", visible(&model, &|x| x < k), c.first_less(te, dflt, probe(k)).id()),
                    TOp::Leq { .. } => ("first_less_or_equal", visible(&model, &|x| x <= k), c.first_less_or_equal(te, dflt, probe(k)).id()),
                    _ => ("first_less_or_equal_by", visible(&model, &|x| x <= k), c.first_less_or_equal_by(te, dflt, |s: TK<E>| s.k.cmp(&k)).id()),
                };
                if m_pred {
                    rep.counters.inc("typed_pred_compared");
                }
                if m_pred && got != want.unwrap_or(DEFAULT_ID) {
                    return Err(Fail::new(format!("{}:mismatch", name), format!("{}(t={}, probe={}) returned id {}, reference {:?} (default id {})", name, t, k, got, want, DEFAULT_ID)));
                }
            }
            TOp::Empty => {
                let some_live = model.iter().any(|e| e.1 > t);
                if m_empty && some_live && c.is_empty() {
                    return Err(Fail::new("is_empty:true-with-live-entry", format!("is_empty() at t={} while a live entry is stored", t)));
                }
            }
            TOp::Clear => {
                c.clear();
                model.clear();
                if m_empty && !c.is_empty() {
                    return Err(Fail::new("clear:not-empty", "is_empty() false right after clear()"));
                }
            }
        }
        if t >= E::HI - 3 {
            rep.counters.inc("typed_ops_within_3_of_type_max");
        }
        if t <= E::LO + 1 {
            rep.counters.inc("typed_ops_at_type_min");
        }
        if let Some(f) = tree {
            f(&c)?;
        }
    }
    ctx::set(hist, ops.len() as u64);
    let mut want: Vec<(i32, u64)> = model.iter().filter(|e| e.1 > t_export).map(|e| (e.0, e.2)).collect();
    want.sort();
    let want: Vec<u64> = want.into_iter().map(|e| e.1).collect();
    let got: Vec<u64> = c.into_ordered_vec(E::of(t_export)).into_iter().map(|v| v.id()).collect();
    if m_export {
        rep.counters.inc("typed_exports_compared");
    }
    if m_export && got != want {
        return Err(Fail::new("export:mismatch", format!("into_ordered_vec(t={}) returned ids {:?}, reference {:?}", t_export, got, want)));
    }
    Ok(())
}

fn key_case<E: ET, V: VT>(coll: &str, seed: u64, h: u64, len: usize, mon: &str, rep: &mut Report, hist: u64) -> Result<(), Fail> {
    let mut rng = Rng::new(seed).derive(0xE7).derive(h);
    let (ops, t_export) = gen_history(&mut rng, E::LO, E::HI, h, len);
    let hint = [0usize, 1, 8, 3][(h % 4) as usize];
    let mon_struct = has(mon, "structure");
    rep.case(mix(crate::util::hash_bytes(E::NAME.as_bytes()), mix(h, crate::util::hash_bytes(coll.as_bytes()))));
    if coll == "tree" {
        let check = move |c: &KeyExpTree<TK<E>, E, V>| -> Result<(), Fail> {
            if !mon_struct {
                return Ok(());
            }
            let s = c.verif_snapshot(|k, _| k.k as i64);
            snap::check_structure(&s, |p| *p).map_err(|e| Fail::new("structure", e))?;
            snap::check_slots(&s).map_err(|e| Fail::new("slots", e))?;
            Ok(())
        };
        run_key::<E, V, _>(KeyExpTree::<TK<E>, E, V>::new(hint), Some(&check), &ops, t_export, mon, rep, hist)
    } else {
        run_key::<E, V, _>(KeyExpList::<TK<E>, E, V>::new(hint), None, &ops, t_export, mon, rep, hist)
    }
}

// ---------------------------------------------------------------------------------------------
// segment tree with every expiration type

#[derive(Clone, Copy, Debug)]
pub struct SV<E> {
    exp: E,
    id: u32,
}
impl<E: ET> ExpiredVal<E> for SV<E> {
    fn expiration(&self) -> E {
        self.exp
    }
}

fn seg_case<E: ET>(seed: u64, h: u64, len: usize, mon: &str, rep: &mut Report, hist: u64) -> Result<(), Fail> {
    let mut rng = Rng::new(seed).derive(0x5E).derive(h);
    let (lo, hi): (i64, i64) = match h % 3 {
        0 => (0, 31),
        1 => (-40, 200),
        _ => (i32::MIN as i64, i32::MAX as i64),
    };
    let shift = expected_shift((hi - lo + 1) as u128);
    let bucket = |x: i64| -> u32 { ((x - lo) as u64 >> shift) as u32 };
    let mut tree = SegExpTree::<i32, E, SV<E>>::new(SegRange { min: lo as i32, max: hi as i32 }).ok_or_else(|| Fail::new("new:refused", "SegExpTree::new refused the domain"))?;
    let width = E::HI - E::LO;
    let span = (width / 3).min(80);
    let base = [E::LO, E::LO + 1, E::HI - span, if E::LO <= 0 { 0 } else { E::LO + span }][(h % 4) as usize];
    let mut t = base;
    // model: (lo bucket, hi bucket, exp, id)
    let mut model: Vec<(u32, u32, i128, u32)> = Vec::new();
    let mut next_id = 0u32;
    rep.case(mix(crate::util::hash_bytes(E::NAME.as_bytes()), mix(h, 0x5E6)));
    for i in 0..len {
        ctx::set(hist, i as u64);
        rep.evaluations += 1;
        if i == len * 3 / 4 && h % 2 == 0 && t < E::HI - 3 {
            t = E::HI - 3;
        }
        if rng.chance(1, 3) && t < E::HI {
            t = (t + rng.range(1, 2) as i128).min(E::HI);
        }
        let a = lo + ((rng.next() as u128 % ((hi - lo + 1) as u128)) as i64);
        let b = lo + ((rng.next() as u128 % ((hi - lo + 1) as u128)) as i64);
        let (a, b) = match rng.below(4) {
            0 => (a, a),
            1 => (lo, hi),
            _ => (a.min(b), a.max(b)),
        };
        match rng.below(100) {
            0..=49 => {
                // a value may be inserted already expired (exp < t is in contract for the segment tree: it is simply never yielded)
                let exp = match rng.below(8) {
                    0 => t,
                    1 => (t + 1).min(E::HI),
                    2 => E::HI,
                    3 => (t - 1).max(E::LO),
                    _ => (t + rng.range(0, 10) as i128).min(E::HI),
                };
                let id = next_id;
                next_id += 1;
                tree.insert_by_range(SegRange { min: a as i32, max: b as i32 }, SV { exp: E::of(exp), id });
                model.push((bucket(a), bucket(b), exp, id));
                rep.counters.inc("typed_seg_inserts");
            }
            50..=94 => {
                let whole = rng.chance(1, 4);
                let (qa, qb) = if whole { (lo, hi) } else { (a, b) };
                let mut got: Vec<u32> = tree.iter_by_range(SegRange { min: qa as i32, max: qb as i32 }, E::of(t)).map(|v| v.id).collect();
                got.sort_unstable();
                let (ba, bb) = (bucket(qa), bucket(qb));
                let mut want: Vec<u32> = model.iter().filter(|m| m.2 >= t && m.0 <= bb && ba <= m.1).map(|m| m.3).collect();
                want.sort_unstable();
                if has(mon, "query") {
                    rep.counters.inc("typed_seg_queries_compared");
                }
                if t >= E::HI - 3 {
                    rep.counters.inc("typed_ops_within_3_of_type_max");
                }
                if has(mon, "query") && got != want {
                    return Err(Fail::new("seg-query:mismatch", format!("query [{},{}] at t={} yielded ids {:?}, reference {:?}", qa, qb, t, got, want)));
                }
                if whole {
                    let d = tree.verif_dump();
                    if let Some(c) = d.copies.iter().find(|c| has(mon, "purge") && c.val.exp.val() < t) {
                        return Err(Fail::new("seg-purge:expired-copy-kept", format!("after a fully consumed whole-domain query at t={} a copy of value {} (exp {}) is still stored at place {}", t, c.val.id, c.val.exp.val(), c.place)));
                    }
                    model.retain(|m| m.2 >= t);
                    if has(mon, "purge") {
                        rep.counters.inc("typed_seg_purges_checked");
                    }
                }
            }
            _ => {
                tree.clear();
                model.clear();
                if rng.chance(1, 2) {
                    t = base;
                }
            }
        }
    }
    Ok(())
}

// ---------------------------------------------------------------------------------------------

const TYPES: [&str; 9] = ["u8", "i8", "u16", "i16", "u32", "i32", "u64", "i64", "usize"];

macro_rules! by_type {
    ($name:expr, $f:ident, $($args:expr),*) => {
        match $name {
            "u8" => $f::<u8>($($args),*),
            "i8" => $f::<i8>($($args),*),
            "u16" => $f::<u16>($($args),*),
            "i16" => $f::<i16>($($args),*),
            "u32" => $f::<u32>($($args),*),
            "i32" => $f::<i32>($($args),*),
            "u64" => $f::<u64>($($args),*),
            "i64" => $f::<i64>($($args),*),
            _ => $f::<usize>($($args),*),
        }
    };
}

fn key_case_v<E: ET>(vt: &str, coll: &str, seed: u64, h: u64, len: usize, mon: &str, rep: &mut Report, hist: u64) -> Result<(), Fail> {
    match vt {
        "u16" => key_case::<E, u16>(coll, seed, h, len, mon, rep, hist),
        "fat" => key_case::<E, Fat>(coll, seed, h, len, mon, rep, hist),
        _ => key_case::<E, u64>(coll, seed, h, len, mon, rep, hist),
    }
}

/// one case, identified by its line (also used by replay)
pub fn run_case(kind: &str, ty: &str, vt: &str, coll: &str, seed: u64, h: u64, len: usize, mon: &str, rep: &mut Report, hist: u64) -> Result<(), Fail> {
    if kind == "seg" {
        by_type!(ty, seg_case, seed, h, len, mon, rep, hist)
    } else {
        by_type!(ty, key_case_v, vt, coll, seed, h, len, mon, rep, hist)
    }
}

pub fn case_from_line(l: &str, rep: &mut Report) -> Result<(), Fail> {
    let val = |k: &str| -> String { l.split_whitespace().find_map(|p| p.strip_prefix(&format!("{}=", k))).unwrap_or("").to_string() };
    run_case(&val("kind"), &val("type"), &val("vt"), &val("coll"), val("seed").parse().unwrap_or(1), val("h").parse().unwrap_or(0), val("len").parse().unwrap_or(100), &val("mon"), rep, 0)
}

/// `--kinds key,seg` `--coll tree|list|both` `--mon pred,get,export,empty,structure,query,purge`; budget = histories per (type, collection)
pub fn suite_exp_types(cfg: &Cfg, rep: &mut Report) {
    let kinds = cfg.str_or("kinds", "key,seg").to_string();
    let want_coll = cfg.str_or("coll", "both").to_string();
    let mon = cfg.str_or("mon", "all").to_string();
    let len = cfg.num("len", 160) as usize;
    let vts = ["u64", "u16", "fat"];
    let mut idx = 0u64;
    for h in 0..cfg.budget {
        for ty in TYPES {
            let mut cases: Vec<(&str, &str)> = Vec::new();
            if kinds.contains("key") {
                if want_coll != "list" {
                    cases.push(("key", "tree"));
                }
                if want_coll != "tree" {
                    cases.push(("key", "list"));
                }
            }
            if kinds.contains("seg") {
                cases.push(("seg", "seg"));
            }
            for (kind, coll) in cases {
                idx += 1;
                if (idx - 1) % cfg.nshards != cfg.shard {
                    continue;
                }
                if let Some(o) = cfg.only {
                    if o != idx {
                        continue;
                    }
                }
                let vt = vts[(h % 3) as usize];
                let line = format!("#exp-types kind={} type={} vt={} coll={} seed={} h={} len={} mon={}", kind, ty, vt, coll, cfg.seed, h, len, mon);
                if cfg.emit {
                    println!("CTOR case");
                    println!("OP {}", line);
                    return;
                }
                ctx::set(idx, 0);
                rep.histories += 1;
                rep.counters.inc(&format!("typed_histories_{}", ty));
                if let Err(f) = run_case(kind, ty, vt, coll, cfg.seed, h, len, &mon, rep, idx) {
                    let name = match (kind, coll) {
                        ("seg", _) => "SegExpTree",
                        (_, "tree") => "KeyExpTree",
                        _ => "KeyExpList",
                    };
                    rep.violation(Viol { sig: format!("{}<{}>:{}", name, ty, f.sig), msg: format!("[expiration type {}, value type {}] {}", ty, vt, f.msg), family: "case".into(), coll: name.into(), ctor: "case".into(), ops: vec![line], confirmed: true });
                }
            }
        }
    }
    rep.sample(J::obj(vec![
        ("expiration_types", J::Arr(TYPES.iter().map(|t| J::s(*t)).collect())),
        ("value_types", J::Arr(vts.iter().map(|t| J::s(*t)).collect())),
        ("per_history", J::s("clock starts at the type's MIN, MIN+1, 0 or MAX-80; the last quarter of every other history runs at MAX-3..=MAX and exports at MAX; expirations t, t+1, MAX-1, MAX (= max_expiration()), t+0..12; capacity hints 0,1,3,8")),
    ]));
}
