//! Workloads for the expiring-key family: seeded random histories and closure to a fixpoint.
use crate::ctx;
use crate::cb::KKey;
use crate::key::*;
use crate::report::{Cfg, Fail, Report, Viol};
use crate::util::{Rng, J};
use i_tree::key::list::KeyExpList;
use i_tree::key::tree::KeyExpTree;
use std::collections::HashMap;

pub type KTree = KeyExpTree<KKey, i32, u64>;
pub type KList = KeyExpList<KKey, i32, u64>;

fn viol<C: KeyColl>(f: &Fail, hint: usize, ops: &[KOp], confirmed: bool) -> Viol {
    Viol {
        sig: format!("{}:{}", C::NAME, f.sig),
        msg: f.msg.clone(),
        family: "key".into(),
        coll: C::NAME.into(),
        ctor: format!("hint={}", hint),
        ops: ops.iter().map(|o| o.line()).collect(),
        confirmed,
    }
}

pub fn handle_fail<C: KeyColl>(rep: &mut Report, f: Fail, hint: usize, ops: &[KOp], confirmed: bool) {
    if f.sig.starts_with("HARNESS") {
        rep.note(format!("harness contract breach: {} {}", f.sig, f.msg));
    } else {
        rep.violation(viol::<C>(&f, hint, ops, confirmed));
    }
}

/// history `h` of the random suite (pure function of the seed tuple)
pub fn history_for(cfg: &Cfg, h: u64) -> (usize, Vec<KOp>, &'static str) {
    let profs = profiles(cfg.thorough);
    let sel: Vec<&KProf> = match cfg.get("profile") {
        Some(name) => profs.iter().filter(|p| name.split(',').any(|n| n == p.name)).collect(),
        None => profs.iter().filter(|p| p.name != "marathon").collect(),
    };
    // the profile is drawn from the history index through a hash, so that every shard (h = shard +
    // k * nshards) sees every profile equally often whatever the number of profiles
    let p = sel[(crate::util::mix(h, 0x50524F46) % sel.len() as u64) as usize];
    let mut rng = Rng::new(cfg.seed).derive(0x4B45_59).derive(h);
    let mut p = p.clone();
    if cfg.flag("noexport") {
        p.export_end = false;
    }
    if let Some(l) = cfg.get("maxlen") {
        if let Ok(l) = l.parse::<usize>() {
            p.len = p.len.min(l);
        }
    }
    let (hint, ops) = gen_history(&p, &mut rng);
    (hint, ops, p.name)
}

fn run_one<C: KeyColl>(cfg: &Cfg, rep: &mut Report, mon: &KMon, h: u64, hint: usize, ops: &[KOp]) {
    match run_history::<C>(hint, ops, mon, rep, h) {
        Ok(()) => {}
        Err((f, i)) => handle_fail::<C>(rep, f, hint, &ops[..=i], true),
    }
    let _ = cfg;
}

pub fn suite_key_random(cfg: &Cfg, rep: &mut Report) {
    let mon = KMon::from_list(cfg.str_or("mon", "all"));
    let coll = cfg.str_or("coll", "tree").to_string();
    let mut h = cfg.shard;
    let mut profile_hist: HashMap<&'static str, u64> = HashMap::new();
    while h < cfg.budget {
        if let Some(o) = cfg.only {
            if h != o {
                h += cfg.nshards;
                continue;
            }
        }
        let (hint, ops, pname) = history_for(cfg, h);
        if cfg.emit {
            println!("CTOR hint={}", hint);
            for o in &ops {
                println!("OP {}", o.line());
            }
            return;
        }
        *profile_hist.entry(pname).or_insert(0) += 1;
        if rep.samples.is_empty() {
            rep.sample(J::obj(vec![
                ("history", J::UInt(h)),
                ("profile", J::s(pname)),
                ("hint", J::UInt(hint as u64)),
                ("ops_total", J::UInt(ops.len() as u64)),
                ("first_ops", J::Arr(ops.iter().take(40).map(|o| J::s(o.line())).collect())),
            ]));
        }
        rep.histories += 1;
        rep.counters.add("ops_executed", ops.len() as u64);
        match coll.as_str() {
            "tree" => run_one::<KTree>(cfg, rep, &mon, h, hint, &ops),
            "list" => run_one::<KList>(cfg, rep, &mon, h, hint, &ops),
            _ => {
                run_one::<KTree>(cfg, rep, &mon, h, hint, &ops);
                run_one::<KList>(cfg, rep, &mon, h, hint, &ops);
            }
        }
        h += cfg.nshards;
    }
    for (k, v) in profile_hist {
        rep.counters.add(&format!("profile_{}", k), v);
    }
}

// ---------------------------------------------------------------------------------------------
// closure to a fixpoint over a small universe (tree only: needs verif_clone)

struct Node {
    parent: u32,
    op: KOp,
}

fn canon<C: KeyColl>(ex: &KeyExec<C>, t: i32, r: i32) -> Vec<u8> {
    let (mut c, n) = ex.sut.as_ref().unwrap().phys_canon(t, r).unwrap();
    // number of physically stored entries first (used by the distinct-case rule)
    c.insert(0, n.min(255) as u8);
    c.push(0xFD);
    let mut live: Vec<(i32, i32)> = ex.model.iter().filter(|e| e.1 > t).map(|e| (e.0, e.1.saturating_sub(t))).collect();
    live.sort();
    for (k, d) in live {
        c.push(k as u8);
        c.push(d as u8);
    }
    c.push(if ex.ever_inserted { 1 } else { 0 });
    c
}

fn path_of(nodes: &[Node], mut i: u32) -> Vec<KOp> {
    let mut v = Vec::new();
    while i != 0 {
        v.push(nodes[i as usize].op);
        i = nodes[i as usize].parent;
    }
    v.reverse();
    v
}

/// replay an explicit path on a fresh instance; true if some monitor fires
fn confirm<C: KeyColl>(hint: usize, ops: &[KOp], mon: &KMon) -> bool {
    let mut scratch = Report::new();
    run_history::<C>(hint, ops, mon, &mut scratch, u64::MAX - 1).is_err()
}

/// the operation alphabet the closure applies at one state, in a fixed order
fn state_ops<C: KeyColl>(ex: &KeyExec<C>, t: i32, u: i32, r: i32, keys: &[i32], do_export: bool) -> Vec<KOp> {
    let mut ops: Vec<KOp> = Vec::with_capacity(64);
    for &k in keys {
        if !ex.model.iter().any(|e| e.0 == k && e.1 > t) {
            for d in 0..=r {
                ops.push(KOp::Ins { k, exp: t + d, t });
            }
        }
    }
    for p in -1..2 * u {
        ops.push(KOp::Get { t, k: p });
        ops.push(KOp::Fl { t, k: p });
        ops.push(KOp::Fle { t, k: p });
        for mode in 0..3u8 {
            ops.push(KOp::Fleb { t, k: p, mode });
        }
    }
    ops.push(KOp::Empty);
    ops.push(KOp::Clear);
    if do_export {
        for e in 0..=r + 1 {
            ops.push(KOp::Export { t: t + e });
        }
    }
    ops
}

pub fn suite_key_closure(cfg: &Cfg, rep: &mut Report) {
    if cfg.str_or("coll", "tree") == "list" {
        key_closure::<KList>(cfg, rep)
    } else {
        key_closure::<KTree>(cfg, rep)
    }
}

fn key_closure<C: KeyColl>(cfg: &Cfg, rep: &mut Report) {
    let judge = KMon::from_list(cfg.str_or("mon", "all"));
    // --emit 1 --only <(set index << 40) | state> --seq <n>: print the explicit witness instead
    let emit_for = if cfg.emit { cfg.only.map(|h| ((h >> 40) as usize, (h & 0xFF_FFFF_FFFF) as u32, cfg.num("seq", 0) as usize)) } else { None };
    let mon = if emit_for.is_some() { KMon::none() } else { judge };
    // parameter sets; a shard takes those with index % nshards == shard
    let sets: Vec<(i32, i32, usize)> = {
        let mut v = Vec::new();
        let spec = cfg.str_or("sets", "3:2:8,4:2:0,4:3:1,5:2:9,5:3:8");
        for part in spec.split(',') {
            let f: Vec<i64> = part.split(':').filter_map(|x| x.parse().ok()).collect();
            if f.len() == 3 {
                v.push((f[0] as i32, f[1] as i32, f[2] as usize));
            }
        }
        v
    };
    let max_states = cfg.num("max_states", 400_000) as usize;
    let do_export = judge.export || judge.capacity;
    let fault_mode = cfg.flag("fault");
    let twin_mode = cfg.flag("twin");
    let mon = if fault_mode || twin_mode { KMon::none() } else { mon };
    let mut all_exhaustive = true;
    for (si, &(u, r, hint)) in sets.iter().enumerate() {
        if emit_for.is_none() && si as u64 % cfg.nshards != cfg.shard {
            continue;
        }
        if let Some((want_set, _, _)) = emit_for {
            if want_set != si {
                continue;
            }
        }
        let hist_base = (si as u64) << 40;
        let mut nodes: Vec<Node> = vec![Node { parent: 0, op: KOp::Empty }];
        let mut seen: HashMap<Vec<u8>, u32> = HashMap::new();
        let root = KeyExec::<C>::new(hint);
        seen.insert(canon(&root, 0, r), 0);
        let mut frontier: Vec<(u32, KeyExec<C>, i32)> = vec![(0, root, 0)];
        let mut transitions = 0u64;
        let mut depth = 0u64;
        let mut truncated = false;
        let keys: Vec<i32> = (0..u).map(|i| 2 * i).collect();
        'bfs: while !frontier.is_empty() {
            let mut next: Vec<(u32, KeyExec<C>, i32)> = Vec::new();
            for (idx, ex, t) in frontier.iter() {
                let (idx, t) = (*idx, *t);
                let ops = state_ops(ex, t, u, r, &keys, do_export);
                if let Some((_, want_state, want_seq)) = emit_for {
                    if idx == want_state {
                        println!("CTOR coll={} hint={}", C::NAME, hint);
                        for o in path_of(&nodes, idx) {
                            println!("OP {}", o.line());
                        }
                        if let Some(o) = ops.get(want_seq) {
                            println!("OP {}", o.line());
                        }
                        return;
                    }
                }
                if twin_mode && emit_for.is_none() {
                    // C12: clear this state (expired-but-unremoved entries included), restart the
                    // clock at 0, and drive it and a fresh twin with the same suffixes
                    let pre: Vec<String> = path_of(&nodes, idx).iter().map(|o| o.line()).collect();
                    let ctor = format!("hint={} twin_hint={}", hint, [0usize, 1, 8, 9, 300][idx as usize % 5]);
                    for variant in 0..2 {
                        let mut suf: Vec<KOp> = vec![KOp::Empty];
                        let order: Vec<i32> = if variant == 0 { keys.clone() } else { keys.iter().rev().copied().collect() };
                        let mut ts = 0;
                        for (n, &k) in order.iter().enumerate() {
                            suf.push(KOp::Ins { k, exp: ts + 1 + (n as i32 % (r + 1)), t: ts });
                            suf.push(KOp::Fle { t: ts, k: k + 1 });
                            suf.push(KOp::Get { t: ts, k });
                            if n % 2 == 1 {
                                ts += 1;
                            }
                        }
                        for p in -1..2 * u {
                            suf.push(KOp::Fl { t: ts, k: p });
                            suf.push(KOp::Fleb { t: ts, k: p, mode: p.rem_euclid(3) as u8 });
                        }
                        suf.push(KOp::Empty);
                        suf.push(KOp::Export { t: ts + variant });
                        let suf_lines: Vec<String> = suf.iter().map(|o| o.line()).collect();
                        crate::misc_suites::twin_run(C::NAME, &ctor, &pre, &suf_lines, rep, hist_base | idx as u64);
                        rep.histories += 1;
                    }
                }
                if fault_mode && emit_for.is_none() {
                    let path = path_of(&nodes, idx);
                    let ctor = format!("hint={}", hint);
                    for op in ops.iter() {
                        let mut h = path.clone();
                        h.push(*op);
                        crate::fault::fault_history_from::<KeyExec<C>>(&ctor, &h, rep, hist_base | idx as u64, None, path.len());
                    }
                }
                // tick: no library call, only the clock moves
                let tick_canon = canon(ex, t + 1, r);
                if !seen.contains_key(&tick_canon) {
                    let ni = nodes.len() as u32;
                    // a tick is represented in the path by the next operation's time; store a harmless marker op
                    nodes.push(Node { parent: idx, op: KOp::Empty });
                    seen.insert(tick_canon, ni);
                    let c = ex.dup().unwrap();
                    next.push((ni, c, t + 1));
                }
                for (oi, op) in ops.into_iter().enumerate() {
                    if emit_for.is_some() && matches!(op, KOp::Export { .. } | KOp::Empty) {
                        continue;
                    }
                    ctx::set(hist_base | idx as u64, oi as u64);
                    let mut c = ex.dup().unwrap();
                    transitions += 1;
                    match c.step(&op, &mon, rep) {
                        Err(f) => {
                            let mut path = path_of(&nodes, idx);
                            path.push(op);
                            let ok = f.sig.starts_with("HARNESS") || confirm::<C>(hint, &path, &mon);
                            handle_fail::<C>(rep, f, hint, &path, ok);
                            if rep.counters.get("violations_total") > 50 {
                                truncated = true;
                                break 'bfs;
                            }
                        }
                        Ok(_) => {
                            if matches!(op, KOp::Export { .. } | KOp::Empty) {
                                continue;
                            }
                            let cn = canon(&c, t, r);
                            if !seen.contains_key(&cn) {
                                let ni = nodes.len() as u32;
                                nodes.push(Node { parent: idx, op });
                                seen.insert(cn, ni);
                                next.push((ni, c, t));
                                if nodes.len() > max_states {
                                    truncated = true;
                                    break 'bfs;
                                }
                            }
                        }
                    }
                }
            }
            frontier = next;
            depth += 1;
        }
        if emit_for.is_some() {
            return;
        }
        if truncated {
            all_exhaustive = false;
        }
        rep.states += nodes.len() as u64;
        rep.transitions += transitions;
        rep.counters.max("max_closure_depth", depth);
        rep.counters.add(&format!("closure_states_{}_u{}_r{}_hint{}", C::NAME, u, r, hint), nodes.len() as u64);
        for cn in seen.keys() {
            // distinct non-trivial case = canonical physical state holding at least 2 entries
            if cn[0] >= 2 {
                rep.case(crate::util::hash_bytes(cn) ^ ((u as u64) << 56) ^ ((r as u64) << 48) ^ crate::util::hash_bytes(C::NAME.as_bytes()));
            }
        }
        if rep.samples.len() < 3 && nodes.len() > 10 {
            let i = (nodes.len() / 2) as u32;
            rep.sample(J::obj(vec![
                ("closure", J::s(format!("keys={} lifetimes=0..={} hint={}", u, r, hint))),
                ("states", J::UInt(nodes.len() as u64)),
                ("transitions", J::UInt(transitions)),
                ("closed", J::Bool(!truncated)),
                ("path_to_state", J::UInt(i as u64)),
                ("path", J::Arr(path_of(&nodes, i).iter().map(|o| J::s(o.line())).collect())),
            ]));
        }
    }
    rep.exhaustive = Some(all_exhaustive);
}
