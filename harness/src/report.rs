//! Worker configuration and report.
use crate::util::{Counters, J};
use std::collections::{BTreeMap, HashSet};

#[derive(Clone, Debug)]
pub struct Cfg {
    pub suite: String,
    pub prop: String,
    pub seed: u64,
    pub shard: u64,
    pub nshards: u64,
    pub budget: u64,
    pub thorough: bool,
    pub only: Option<u64>,
    pub emit: bool,
    pub params: BTreeMap<String, String>,
}

impl Cfg {
    pub fn get(&self, k: &str) -> Option<&str> {
        self.params.get(k).map(|s| s.as_str())
    }
    pub fn num(&self, k: &str, default: i64) -> i64 {
        self.get(k).and_then(|s| s.parse().ok()).unwrap_or(default)
    }
    pub fn flag(&self, k: &str) -> bool {
        matches!(self.get(k), Some("1") | Some("true") | Some("yes"))
    }
    pub fn str_or<'a>(&'a self, k: &str, default: &'a str) -> &'a str {
        self.get(k).unwrap_or(default)
    }
    pub fn has_mon(&self, m: &str) -> bool {
        match self.get("mon") {
            None => true,
            Some(list) => list.split(',').any(|x| x == m || x == "all"),
        }
    }
}

/// observation returned by an executed operation (used for twin comparison, C12)
#[derive(Clone, Debug, PartialEq)]
pub enum Obs {
    Unit,
    Bool(bool),
    Val(Option<u64>),
    Ent(Option<(i32, u64)>),
    List(Vec<u64>),
}

/// a monitor firing: short stable signature + human readable message
#[derive(Clone, Debug)]
pub struct Fail {
    pub sig: String,
    pub msg: String,
}
impl Fail {
    pub fn new(sig: impl Into<String>, msg: impl Into<String>) -> Self {
        Fail { sig: sig.into(), msg: msg.into() }
    }
}

#[derive(Clone, Debug)]
pub struct Viol {
    pub sig: String,
    pub msg: String,
    pub family: String,
    pub coll: String,
    pub ctor: String,
    pub ops: Vec<String>,
    pub confirmed: bool,
}

pub const DISTINCT_CAP: usize = 250_000;

pub struct Report {
    pub evaluations: u64,
    pub histories: u64,
    pub states: u64,
    pub transitions: u64,
    pub counters: Counters,
    pub distinct: HashSet<u64>,
    pub distinct_saturated: bool,
    pub samples: Vec<J>,
    pub violations: Vec<Viol>,
    pub notes: Vec<String>,
    pub exhaustive: Option<bool>,
    pub extra: Vec<(String, J)>,
}

impl Report {
    pub fn new() -> Self {
        Report {
            evaluations: 0,
            histories: 0,
            states: 0,
            transitions: 0,
            counters: Counters::default(),
            distinct: HashSet::new(),
            distinct_saturated: false,
            samples: Vec::new(),
            violations: Vec::new(),
            notes: Vec::new(),
            exhaustive: None,
            extra: Vec::new(),
        }
    }
    #[inline]
    pub fn case(&mut self, h: u64) {
        if self.distinct.len() < DISTINCT_CAP {
            self.distinct.insert(h);
        } else {
            self.distinct_saturated = true;
        }
    }
    pub fn sample(&mut self, j: J) {
        if self.samples.len() < 4 {
            self.samples.push(j);
        }
    }
    pub fn violation(&mut self, v: Viol) {
        self.counters.inc("violations_total");
        // keep a bounded number of witnesses, distinct by signature first
        let same = self.violations.iter().filter(|x| x.sig == v.sig).count();
        if self.violations.len() < 12 && same < 3 {
            self.violations.push(v);
        }
    }
    pub fn note(&mut self, s: impl Into<String>) {
        if self.notes.len() < 20 {
            self.notes.push(s.into());
        }
    }
    pub fn to_json(&self, cfg: &Cfg, wall_s: f64) -> J {
        let viols = self
            .violations
            .iter()
            .map(|v| {
                J::obj(vec![
                    ("sig", J::s(v.sig.clone())),
                    ("msg", J::s(v.msg.clone())),
                    ("family", J::s(v.family.clone())),
                    ("coll", J::s(v.coll.clone())),
                    ("ctor", J::s(v.ctor.clone())),
                    ("ops", J::strs(&v.ops)),
                    ("confirmed", J::Bool(v.confirmed)),
                ])
            })
            .collect();
        let mut o = vec![
            ("suite", J::s(cfg.suite.clone())),
            ("prop", J::s(cfg.prop.clone())),
            ("seed", J::UInt(cfg.seed)),
            ("shard", J::UInt(cfg.shard)),
            ("nshards", J::UInt(cfg.nshards)),
            ("evaluations", J::UInt(self.evaluations)),
            ("histories", J::UInt(self.histories)),
            ("states", J::UInt(self.states)),
            ("transitions", J::UInt(self.transitions)),
            ("distinct", J::UInt(self.distinct.len() as u64)),
            ("distinct_saturated", J::Bool(self.distinct_saturated)),
            ("counters", self.counters.to_json()),
            ("samples", J::Arr(self.samples.clone())),
            ("violations", J::Arr(viols)),
            ("notes", J::strs(&self.notes)),
            ("wall_s", J::Float(wall_s)),
        ];
        if let Some(e) = self.exhaustive {
            o.push(("exhaustive", J::Bool(e)));
        }
        let mut o: Vec<(String, J)> = o.into_iter().map(|(k, v)| (k.to_string(), v)).collect();
        for (k, v) in &self.extra {
            o.push((k.clone(), v.clone()));
        }
        J::Obj(o)
    }
}
