//! C17 read literally: "a handle keeps designating the same entry across ANY number of subsequent
//! insertions and lookups". The other suites insert a key only while it is absent (the contract
//! of C04 / C10). This one also inserts keys that are already stored - the unchanged library then
//! stores a second entry - and re-checks the handles of all OTHER keys after every insertion: no
//! insertion, whatever it does with the equal key, may move another entry to another slot.
//! Nothing is asserted about the entries of the duplicated key itself, nor about lookups of it.
use crate::ctx;
use crate::report::{Cfg, Fail, Report, Viol};
use crate::util::{mix, Rng, J};
use i_tree::map::sort::MapCollection;
use i_tree::map::tree::MapTree;
use i_tree::set::sort::{KeyValue, SetCollection};
use i_tree::set::tree::SetTree;
use i_tree::EMPTY_REF;

#[derive(Clone, Default, Debug, PartialEq)]
pub struct DV {
    key: i32,
    id: u64,
}
impl KeyValue<i32> for DV {
    fn key(&self) -> &i32 {
        &self.key
    }
}

trait Dup {
    fn make(hint: usize) -> Self;
    fn ins(&mut self, k: i32, id: u64);
    fn del(&mut self, k: i32);
    fn find(&self, k: i32) -> u32;
    /// (key, id) behind a handle
    fn at(&self, h: u32) -> (i32, u64);
    fn look(&self, k: i32) -> Option<u64>;
}
/// the map stores (key, id) as value so that the entry behind a handle can be identified
impl Dup for MapTree<i32, (i32, u64)> {
    fn make(hint: usize) -> Self {
        MapTree::new(hint)
    }
    fn ins(&mut self, k: i32, id: u64) {
        self.insert(k, (k, id))
    }
    fn del(&mut self, k: i32) {
        self.delete(k)
    }
    fn find(&self, k: i32) -> u32 {
        self.first_index_less(k)
    }
    fn at(&self, h: u32) -> (i32, u64) {
        *self.value_by_index(h)
    }
    fn look(&self, k: i32) -> Option<u64> {
        self.get_value(k).map(|v| v.1)
    }
}
impl Dup for SetTree<i32, DV> {
    fn make(hint: usize) -> Self {
        SetTree::new(hint)
    }
    fn ins(&mut self, k: i32, id: u64) {
        self.insert(DV { key: k, id })
    }
    fn del(&mut self, k: i32) {
        self.delete(&k)
    }
    fn find(&self, k: i32) -> u32 {
        self.first_index_less(&k)
    }
    fn at(&self, h: u32) -> (i32, u64) {
        let v = self.value_by_index(h);
        (v.key, v.id)
    }
    fn look(&self, k: i32) -> Option<u64> {
        self.get_value(&k).map(|v| v.id)
    }
}

fn case<C: Dup>(seed: u64, h: u64, rep: &mut Report, hist: u64) -> Result<(), Fail> {
    let mut rng = Rng::new(seed).derive(0xD0B).derive(h);
    let hint = [0usize, 1, 8, 9, 40][(h % 5) as usize];
    let u = [6i64, 12, 40, 200][((h / 5) % 4) as usize];
    let mut c = C::make(hint);
    // build phase: distinct keys only, with deletions, so that slots are recycled
    let mut present: Vec<(i32, u64)> = Vec::new();
    let mut next_id = 1u64;
    let build = rng.range(1, (u * 3).min(120)) as usize;
    for i in 0..build {
        ctx::set(hist, i as u64);
        let k = rng.range(0, u - 1) as i32;
        if let Some(p) = present.iter().position(|e| e.0 == k) {
            if rng.chance(1, 2) {
                c.del(k);
                present.swap_remove(p);
            }
        } else {
            c.ins(k, next_id);
            present.push((k, next_id));
            next_id += 1;
        }
    }
    if present.is_empty() {
        c.ins(0, next_id);
        present.push((0, next_id));
        next_id += 1;
    }
    // handles of every stored entry (all keys are distinct so far)
    let mut held: Vec<(u32, i32, u64)> = Vec::new();
    for &(k, id) in &present {
        let hd = c.find(k);
        if hd == EMPTY_REF || c.at(hd) != (k, id) {
            return Err(Fail::new("HARNESS:dup-held:setup", format!("first_index_less({}) did not designate the entry just built", k)));
        }
        held.push((hd, k, id));
    }
    rep.counters.add("handles_taken", held.len() as u64);
    rep.case(mix(0xD0B, mix(h, held.len() as u64)));
    // insertion phase: no deletion, no clear; about half of the insertions repeat a stored key
    let steps = rng.range(1, 60) as usize;
    let mut keys: Vec<i32> = present.iter().map(|e| e.0).collect();
    for s in 0..steps {
        ctx::set(hist, (build + s) as u64);
        let dup = rng.chance(1, 2);
        let k = if dup { *rng.pick(&keys) } else { rng.range(-5, u + 5) as i32 };
        let is_dup = keys.contains(&k);
        c.ins(k, next_id);
        next_id += 1;
        if !is_dup {
            keys.push(k);
        } else {
            rep.counters.inc("inserts_of_an_already_stored_key");
        }
        // lookups in between (not judged for the duplicated key)
        let probe = rng.range(-1, u) as i32;
        let _ = c.look(probe);
        let _ = c.find(probe);
        // the entry whose key was repeated is out of the picture from now on (whether the library
        // keeps both entries, overwrites in place or ignores the call is not C17's business)
        held.retain(|e| e.1 != k);
        for &(hd, hk, hid) in &held {
            rep.evaluations += 1;
            rep.counters.inc("held_handles_rechecked");
            if is_dup {
                rep.counters.inc("held_handles_rechecked_after_duplicate_insert");
            }
            let got = c.at(hd);
            if got != (hk, hid) {
                return Err(Fail::new(
                    "held-handle:designates-other-entry",
                    format!("after insert({}){} handle {} taken for key {} id {} designates key {} id {}", k, if is_dup { " of an already stored key" } else { "" }, hd, hk, hid, got.0, got.1),
                ));
            }
        }
    }
    Ok(())
}

pub fn run_line(l: &str, rep: &mut Report) -> Result<(), Fail> {
    let val = |k: &str| -> String { l.split_whitespace().find_map(|p| p.strip_prefix(&format!("{}=", k))).unwrap_or("").to_string() };
    let (seed, h) = (val("seed").parse().unwrap_or(1), val("h").parse().unwrap_or(0));
    if val("coll") == "set" {
        case::<SetTree<i32, DV>>(seed, h, rep, 0)
    } else {
        case::<MapTree<i32, (i32, u64)>>(seed, h, rep, 0)
    }
}

pub fn suite_dup_held(cfg: &Cfg, rep: &mut Report) {
    let mut h = cfg.shard;
    while h < cfg.budget {
        if let Some(o) = cfg.only {
            if o != h {
                h += cfg.nshards;
                continue;
            }
        }
        let coll = if h % 2 == 0 { "map" } else { "set" };
        let line = format!("#dup-held coll={} seed={} h={}", coll, cfg.seed, h);
        if cfg.emit {
            println!("CTOR case");
            println!("OP {}", line);
            return;
        }
        ctx::set(h, 0);
        rep.histories += 1;
        let r = if coll == "set" { case::<SetTree<i32, DV>>(cfg.seed, h, rep, h) } else { case::<MapTree<i32, (i32, u64)>>(cfg.seed, h, rep, h) };
        if let Err(f) = r {
            let name = if coll == "set" { "SetTree" } else { "MapTree" };
            rep.violation(Viol { sig: format!("{}:{}", name, f.sig), msg: f.msg, family: "case".into(), coll: name.into(), ctor: "case".into(), ops: vec![line], confirmed: true });
        }
        h += cfg.nshards;
    }
    rep.sample(J::obj(vec![("per_history", J::s("build a MapTree / SetTree with distinct keys (inserts and deletes), take a handle for every entry, then 1..60 insertions of which about half repeat a stored key; after each insertion every held handle of another key must still designate its entry"))]));
}
