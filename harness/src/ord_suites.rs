//! Workloads for the ordered map / set family.
use crate::cb::{self, MKey, MVal, SKey, SVal};
use crate::ctx;
use crate::ord::*;
use crate::report::{Cfg, Fail, Report, Viol};
use crate::snap;
use crate::util::{hash_bytes, Rng, J};
use i_tree::map::list::MapList;
use i_tree::map::tree::MapTree;
use i_tree::set::list::SetList;
use i_tree::set::tree::SetTree;
use std::collections::HashMap;

pub type MTree = MapTree<MKey, MVal>;
pub type MList = MapList<MKey, MVal>;
pub type STree = SetTree<SKey, SVal>;
pub type SList = SetList<SVal>;
pub type STreeInt = SetTree<i32, i32>;
pub type MTreeInt = MapTree<i32, u64>;

fn viol<C: OrdColl>(f: &Fail, hint: usize, uni: (i32, i32), ops: &[OOp], confirmed: bool) -> Viol {
    Viol {
        sig: format!("{}:{}", C::NAME, f.sig),
        msg: f.msg.clone(),
        family: "ord".into(),
        coll: C::NAME.into(),
        ctor: format!("hint={} uni={}..{}", hint, uni.0, uni.1),
        ops: ops.iter().map(|o| o.line()).collect(),
        confirmed,
    }
}

pub fn handle_fail<C: OrdColl>(rep: &mut Report, f: Fail, hint: usize, uni: (i32, i32), ops: &[OOp], confirmed: bool) {
    if f.sig.starts_with("HARNESS") {
        rep.note(format!("harness contract breach: {} {}", f.sig, f.msg));
    } else {
        rep.violation(viol::<C>(&f, hint, uni, ops, confirmed));
    }
}

pub fn history_for(cfg: &Cfg, h: u64, is_set: bool) -> (usize, (i32, i32), Vec<OOp>, &'static str) {
    let profs = profiles(cfg.thorough);
    let sel: Vec<&OProf> = match cfg.get("profile") {
        Some(name) => profs.iter().filter(|p| name.split(',').any(|n| n == p.name)).collect(),
        None => profs.iter().filter(|p| p.name != "marathon").collect(),
    };
    let p = sel[(crate::util::mix(h, 0x50524F46) % sel.len() as u64) as usize];
    let mut p = p.clone();
    if let Some(l) = cfg.get("maxlen") {
        if let Ok(l) = l.parse::<usize>() {
            p.len = p.len.min(l);
        }
    }
    let mut rng = Rng::new(cfg.seed).derive(0x4F52_44).derive(h);
    let (hint, uni, ops) = gen_history(&p, is_set, &mut rng);
    (hint, uni, ops, p.name)
}

fn run_one<C: OrdColl>(rep: &mut Report, mon: &OMon, h: u64, hint: usize, uni: (i32, i32), ops: &[OOp]) {
    if let Err((f, i)) = run_history::<C>(hint, uni, ops, mon, rep, h) {
        handle_fail::<C>(rep, f, hint, uni, &ops[..=i], true)
    }
}

pub fn dispatch_history(coll: &str, rep: &mut Report, mon: &OMon, h: u64, hint: usize, uni: (i32, i32), ops: &[OOp]) {
    match coll {
        "maptree" => run_one::<MTree>(rep, mon, h, hint, uni, ops),
        "maplist" => run_one::<MList>(rep, mon, h, hint, uni, ops),
        "settree" => run_one::<STree>(rep, mon, h, hint, uni, ops),
        "setlist" => run_one::<SList>(rep, mon, h, hint, uni, ops),
        "settree-int" => run_one::<STreeInt>(rep, mon, h, hint, uni, ops),
        "maptree-int" => run_one::<MTreeInt>(rep, mon, h, hint, uni, ops),
        other => rep.note(format!("unknown collection {}", other)),
    }
}

pub fn is_set_coll(coll: &str) -> bool {
    coll.starts_with("set")
}

pub fn suite_ord_random(cfg: &Cfg, rep: &mut Report) {
    let mon = OMon::from_list(cfg.str_or("mon", "all"));
    let colls: Vec<String> = cfg.str_or("coll", "maptree").split('+').map(|s| s.to_string()).collect();
    let mut h = cfg.shard;
    while h < cfg.budget {
        if let Some(o) = cfg.only {
            if h != o {
                h += cfg.nshards;
                continue;
            }
        }
        // the collection is chosen by the history index so that one seed tuple names one run
        let coll = &colls[((h / cfg.nshards.max(1)) % colls.len() as u64) as usize];
        let (hint, uni, ops, pname) = history_for(cfg, h, is_set_coll(coll));
        if cfg.emit {
            println!("CTOR coll={} hint={} uni={}..{}", coll, hint, uni.0, uni.1);
            for o in &ops {
                println!("OP {}", o.line());
            }
            return;
        }
        if rep.samples.is_empty() {
            rep.sample(J::obj(vec![
                ("history", J::UInt(h)),
                ("collection", J::s(coll.clone())),
                ("profile", J::s(pname)),
                ("hint", J::UInt(hint as u64)),
                ("ops_total", J::UInt(ops.len() as u64)),
                ("first_ops", J::Arr(ops.iter().take(40).map(|o| J::s(o.line())).collect())),
            ]));
        }
        rep.histories += 1;
        rep.counters.add("ops_executed", ops.len() as u64);
        rep.counters.inc(&format!("histories_{}", coll));
        rep.counters.inc(&format!("profile_{}", pname));
        dispatch_history(coll, rep, &mon, h, hint, uni, &ops);
        h += cfg.nshards;
    }
}

// ---------------------------------------------------------------------------------------------
// closure to a fixpoint over a small key universe

struct Node {
    parent: u32,
    op: OOp,
}

fn canon<C: OrdColl>(ex: &OrdExec<C>) -> Vec<u8> {
    // first byte: number of entries (used by the distinct-case rule); a list's state is its content
    let mut c = vec![ex.model.len().min(255) as u8];
    if let Some(s) = ex.sut.snap() {
        c.extend(snap::canonical(&s, |p, out| out.push(p.0 as u8)));
    }
    c.push(0xFD);
    for k in ex.model.keys() {
        c.push(*k as u8);
    }
    c
}

fn path_of(nodes: &[Node], mut i: u32) -> Vec<OOp> {
    let mut v = Vec::new();
    while i != 0 {
        v.push(nodes[i as usize].op);
        i = nodes[i as usize].parent;
    }
    v.reverse();
    v
}

/// a private copy of the state: a hooked clone for the trees, a quiet replay of the path for the lists
fn fork<C: OrdColl>(ex: &OrdExec<C>, nodes: &[Node], idx: u32, hint: usize, uni: (i32, i32)) -> OrdExec<C> {
    if let Some(c) = ex.dup() {
        return c;
    }
    let mut c = OrdExec::<C>::new(hint, uni);
    let mut scratch = Report::new();
    let quiet = OMon::default();
    for op in path_of(nodes, idx) {
        let _ = c.step(&op, &quiet, &mut scratch);
    }
    c
}

fn confirm<C: OrdColl>(hint: usize, uni: (i32, i32), ops: &[OOp], mon: &OMon) -> bool {
    let mut scratch = Report::new();
    run_history::<C>(hint, uni, ops, mon, &mut scratch, u64::MAX - 1).is_err()
}

/// Everything the closure applies at one state, in a fixed order: probe sequences (run on clones,
/// they never add states) followed by the single-operation transitions.
fn state_sequences<C: OrdColl>(ex: &OrdExec<C>, mon: &OMon, u: i32, keys: &[i32], held_depth: i64) -> (Vec<Vec<OOp>>, usize) {
    let absent: Vec<i32> = keys.iter().copied().filter(|k| !ex.model.contains_key(k)).collect();
    let present: Vec<i32> = ex.model.keys().copied().collect();
    let mut seqs: Vec<Vec<OOp>> = Vec::new();
    if mon.lookup {
        let mut ops = vec![OOp::Sweep, OOp::Empty];
        for p in -1..2 * u {
            ops.push(OOp::Get { k: p });
        }
        for p in (-2..=2 * u).filter(|p| !ex.model.contains_key(p)) {
            ops.push(OOp::Del { k: p });
        }
        ops.push(OOp::Sweep);
        seqs.push(ops);
        seqs.push(vec![OOp::Clear, OOp::Empty, OOp::Sweep]);
    }
    if mon.handle {
        let mut ops = Vec::new();
        for p in -2..=2 * u {
            ops.push(OOp::Fil { k: p });
            for mode in 0..3 {
                ops.push(OOp::FilB { k: p, mode });
            }
            ops.push(OOp::Rdh { k: p });
        }
        seqs.push(ops);
        for p in -2..=2 * u {
            seqs.push(vec![OOp::Wrh { k: p }, OOp::Sweep]);
            seqs.push(vec![OOp::DelH { k: p }, OOp::Sweep]);
        }
    }
    if mon.steps && C::IS_SET {
        let mut ops = Vec::new();
        for &k in &present {
            ops.push(OOp::Aft { k });
            ops.push(OOp::Bef { k });
        }
        ops.push(OOp::WalkF);
        ops.push(OOp::WalkB);
        seqs.push(ops);
    }
    if mon.held && !present.is_empty() {
        for &a in &absent {
            if held_depth >= 2 && absent.len() >= 2 {
                for &b in absent.iter().filter(|&&b| b != a) {
                    if held_depth >= 3 && absent.len() >= 3 {
                        for &c3 in absent.iter().filter(|&&c3| c3 != a && c3 != b) {
                            seqs.push(vec![OOp::Hold, OOp::Ins { k: a }, OOp::Chk, OOp::Ins { k: b }, OOp::Chk, OOp::Ins { k: c3 }, OOp::Chk]);
                        }
                    } else {
                        seqs.push(vec![OOp::Hold, OOp::Ins { k: a }, OOp::Chk, OOp::Get { k: a }, OOp::Ins { k: b }, OOp::Chk]);
                    }
                }
            } else {
                seqs.push(vec![OOp::Hold, OOp::Ins { k: a }, OOp::Chk]);
            }
        }
    }
    let first_transition = seqs.len();
    for &k in &absent {
        seqs.push(vec![OOp::Ins { k }]);
    }
    for &k in &present {
        seqs.push(vec![OOp::Del { k }]);
    }
    (seqs, first_transition)
}

/// `emit`: Some((state, sequence number)) = do not judge anything, walk the same breadth-first
/// order until `state` is about to be expanded and print the path to it plus that sequence
fn closure<C: OrdColl>(cfg: &Cfg, rep: &mut Report, u: i32, hint: usize, set_index: u64, emit: Option<(u32, usize)>) -> bool {
    let judge = OMon::from_list(cfg.str_or("mon", "all"));
    // while emitting, the probes are skipped and the transitions run unjudged
    let mon = if emit.is_some() { OMon::default() } else { judge };
    let max_states = cfg.num("max_states", 300_000) as usize;
    let held_depth = cfg.num("held_depth", 2);
    // fault mode (C18): the probe sequences are not judged here; they are handed to the fault
    // enumerator together with the path to the state
    let fault_mode = cfg.flag("fault");
    let twin_mode = cfg.flag("twin");
    let mon = if fault_mode || twin_mode { OMon::default() } else { mon };
    let uni = (-1, 2 * u - 1);
    let keys: Vec<i32> = (0..u).map(|i| 2 * i).collect();
    let base_live = cb::ledger_live();
    let mut truncated = false;
    let mut transitions = 0u64;
    let mut nstates = 0usize;
    {
        let mut nodes: Vec<Node> = vec![Node { parent: 0, op: OOp::Empty }];
        let mut seen: HashMap<Vec<u8>, u32> = HashMap::new();
        let root = OrdExec::<C>::new(hint, uni);
        seen.insert(canon(&root), 0);
        let mut frontier: Vec<(u32, OrdExec<C>)> = vec![(0, root)];
        let mut depth = 0u64;
        'bfs: while !frontier.is_empty() {
            let mut next: Vec<(u32, OrdExec<C>)> = Vec::new();
            for (idx, ex) in frontier.iter() {
                let idx = *idx;
                let hist = (set_index << 40) | idx as u64;
                let (seqs, first_transition) = state_sequences(ex, &judge, u, &keys, held_depth);
                if let Some((want_state, want_seq)) = emit {
                    if idx == want_state {
                        println!("CTOR coll={} hint={} uni={}..{}", C::NAME, hint, uni.0, uni.1);
                        for o in path_of(&nodes, idx) {
                            println!("OP {}", o.line());
                        }
                        if let Some(sq) = seqs.get(want_seq) {
                            for o in sq {
                                println!("OP {}", o.line());
                            }
                        }
                        return true;
                    }
                }
                if twin_mode && emit.is_none() && matches!(C::NAME, "MapTree" | "SetTree" | "MapList" | "SetList") {
                    // C12: clear this state, then drive it and a fresh twin with the same suffixes
                    let pre: Vec<String> = path_of(&nodes, idx).iter().map(|o| o.line()).collect();
                    let ctor = format!("hint={} uni={}..{} twin_hint={}", hint, uni.0, uni.1, [0usize, 1, 8, 9, 300][idx as usize % 5]);
                    for variant in 0..3 {
                        let mut suf: Vec<OOp> = Vec::new();
                        let order: Vec<i32> = match variant {
                            0 => keys.clone(),
                            1 => keys.iter().rev().copied().collect(),
                            _ => keys.iter().step_by(2).chain(keys.iter().skip(1).step_by(2)).copied().collect(),
                        };
                        suf.push(OOp::Empty);
                        suf.push(OOp::Sweep);
                        for (n, &k) in order.iter().enumerate() {
                            suf.push(OOp::Ins { k });
                            suf.push(OOp::Fil { k: k + 1 });
                            if n == 2 {
                                suf.push(OOp::Hold);
                            }
                        }
                        suf.push(OOp::Chk);
                        suf.push(OOp::WalkF);
                        suf.push(OOp::WalkB);
                        for &k in order.iter().take(3) {
                            suf.push(OOp::Aft { k });
                            suf.push(OOp::Bef { k });
                            suf.push(OOp::Del { k });
                            suf.push(OOp::Sweep);
                        }
                        suf.push(OOp::DelH { k: 2 * u - 1 });
                        suf.push(OOp::Sweep);
                        suf.push(OOp::Clear);
                        let suf_lines: Vec<String> = suf.iter().map(|o| o.line()).collect();
                        crate::misc_suites::twin_run(C::NAME, &ctor, &pre, &suf_lines, rep, hist);
                        rep.histories += 1;
                    }
                }
                if fault_mode && emit.is_none() {
                    // C18: every sequence applied at this state, with every callback of it panicking once
                    let path = path_of(&nodes, idx);
                    let ctor = format!("hint={} uni={}..{}", hint, uni.0, uni.1);
                    for sq in seqs.iter() {
                        let mut ops = path.clone();
                        ops.extend_from_slice(sq);
                        crate::fault::fault_history_from::<OrdExec<C>>(&ctor, &ops, rep, hist, None, path.len());
                    }
                }
                for (si, sq) in seqs.iter().enumerate() {
                    if si < first_transition && (emit.is_some() || fault_mode || twin_mode) {
                        continue;
                    }
                    ctx::set(hist, si as u64);
                    let mut c = fork(ex, &nodes, idx, hint, uni);
                    let mut failed = false;
                    for (oi, op) in sq.iter().enumerate() {
                        transitions += 1;
                        if let Err(f) = c.step(op, &mon, rep) {
                            let mut path = path_of(&nodes, idx);
                            path.extend_from_slice(&sq[..=oi]);
                            let ok = f.sig.starts_with("HARNESS") || confirm::<C>(hint, uni, &path, &mon);
                            handle_fail::<C>(rep, f, hint, uni, &path, ok);
                            failed = true;
                            break;
                        }
                    }
                    if failed {
                        if rep.counters.get("violations_total") > 50 {
                            truncated = true;
                            break 'bfs;
                        }
                        continue;
                    }
                    if si >= first_transition {
                        let cn = canon(&c);
                        if !seen.contains_key(&cn) {
                            let ni = nodes.len() as u32;
                            nodes.push(Node { parent: idx, op: sq[0] });
                            seen.insert(cn, ni);
                            next.push((ni, c));
                            if nodes.len() > max_states {
                                truncated = true;
                                break 'bfs;
                            }
                        }
                    }
                }
            }
            frontier = next;
            depth += 1;
        }
        if emit.is_some() {
            return false;
        }
        nstates = nstates.max(nodes.len());
        rep.counters.max("max_closure_depth", depth);
        rep.counters.add(&format!("closure_states_{}_u{}_hint{}", C::NAME, u, hint), nodes.len() as u64);
        for cn in seen.keys() {
            if cn[0] >= 2 {
                rep.case(hash_bytes(cn) ^ ((u as u64) << 56) ^ hash_bytes(C::NAME.as_bytes()));
            }
        }
        if rep.samples.len() < 3 && nodes.len() > 10 {
            let i = (nodes.len() / 2) as u32;
            rep.sample(J::obj(vec![
                ("closure", J::s(format!("{} keys={} hint={}", C::NAME, u, hint))),
                ("states", J::UInt(nodes.len() as u64)),
                ("operations_applied", J::UInt(transitions)),
                ("closed", J::Bool(!truncated)),
                ("path_to_state", J::UInt(i as u64)),
                ("path", J::Arr(path_of(&nodes, i).iter().map(|o| J::s(o.line())).collect())),
            ]));
        }
    }
    rep.states += nstates as u64;
    rep.transitions += transitions;
    // everything dropped: the ledger must be back where it started
    if mon.lookup && cb::ledger_live() != base_live {
        rep.violation(Viol {
            sig: format!("{}:ledger:leak-or-double-drop", C::NAME),
            msg: format!("{} payload instances outlive all dropped collections of the closure", cb::ledger_live() - base_live),
            family: "ord".into(),
            coll: C::NAME.into(),
            ctor: format!("hint={}", hint),
            ops: vec![],
            confirmed: false,
        });
    }
    !truncated
}

pub fn suite_ord_closure(cfg: &Cfg, rep: &mut Report) {
    // sets: "coll:u:hint,..."
    let spec = cfg.str_or("sets", "maptree:6:8,settree:6:0,maptree:7:1,settree:7:9").to_string();
    let mut all = true;
    // --emit 1 --only <(set index << 40) | state> --seq <n>: print the explicit witness
    let emit_for = if cfg.emit { cfg.only.map(|h| ((h >> 40) as usize, (h & 0xFF_FFFF_FFFF) as u32, cfg.num("seq", 0) as usize)) } else { None };
    for (si, part) in spec.split(',').enumerate() {
        if emit_for.is_none() && si as u64 % cfg.nshards != cfg.shard {
            continue;
        }
        if let Some((want_set, _, _)) = emit_for {
            if want_set != si {
                continue;
            }
        }
        let f: Vec<&str> = part.split(':').collect();
        if f.len() != 3 {
            continue;
        }
        let u: i32 = f[1].parse().unwrap_or(5);
        let hint: usize = f[2].parse().unwrap_or(8);
        let emit = emit_for.map(|(_, st, sq)| (st, sq));
        let ok = match f[0] {
            "maptree" => closure::<MTree>(cfg, rep, u, hint, si as u64, emit),
            "settree" => closure::<STree>(cfg, rep, u, hint, si as u64, emit),
            "settree-int" => closure::<STreeInt>(cfg, rep, u, hint, si as u64, emit),
            "maplist" => closure::<MList>(cfg, rep, u, hint, si as u64, emit),
            "setlist" => closure::<SList>(cfg, rep, u, hint, si as u64, emit),
            "maptree-int" => closure::<MTreeInt>(cfg, rep, u, hint, si as u64, emit),
            _ => true,
        };
        all &= ok;
    }
    rep.exhaustive = Some(all);
}
