//! C18: fault enumeration. For every operation of a history and every callback invocation it
//! makes, re-run it with that invocation panicking, catch the panic, and check that the
//! collection is valid, un-torn (contents before or after the operation) and usable.
use crate::cb;
use crate::ctx;
use crate::key::{self, KMon, KOp, KeyColl, KeyExec};
use crate::key_suites::{KList, KTree};
use crate::ord::{self, OMon, OOp, OrdColl, OrdExec};
use crate::ord_suites::{MList, MTree, SList, STree};
use crate::report::{Cfg, Fail, Report, Viol};
use crate::seg::{SMon, SOp, SegExec};
use crate::util::{hash_bytes, mix, Rng, J};
use std::panic::{catch_unwind, AssertUnwindSafe};

pub trait FaultExec: Sized {
    type Op: Copy + std::fmt::Debug;
    type Book: Clone;
    const FAMILY: &'static str;
    fn coll() -> &'static str;
    fn fresh(ctor: &str) -> Self;
    fn try_dup(&self) -> Option<Self>;
    fn book(&self) -> Self::Book;
    fn set_book(&mut self, b: Self::Book);
    fn step_quiet(&mut self, op: &Self::Op, rep: &mut Report) -> Result<(), Fail>;
    fn step_full(&mut self, op: &Self::Op, rep: &mut Report) -> Result<(), Fail>;
    /// structure valid and observable contents equal to the current reference model
    fn observe(&mut self, rep: &mut Report) -> Result<(), Fail>;
    fn line(op: &Self::Op) -> String;
    fn consumed(&self) -> bool;
    fn state_hash(&self) -> u64;
    /// the faulted operation has shown its time to the collection: observe no earlier than that
    fn align_time(_before: &mut Self::Book, _after: &Self::Book) {}
}

fn ctor_num(ctor: &str, key: &str, default: i64) -> i64 {
    for part in ctor.split_whitespace() {
        if let Some(v) = part.strip_prefix(&format!("{}=", key)) {
            if let Some((a, _)) = v.split_once("..") {
                return a.parse().unwrap_or(default);
            }
            return v.parse().unwrap_or(default);
        }
    }
    default
}
fn ctor_hi(ctor: &str, key: &str, default: i64) -> i64 {
    for part in ctor.split_whitespace() {
        if let Some(v) = part.strip_prefix(&format!("{}=", key)) {
            if let Some((_, b)) = v.split_once("..") {
                return b.parse().unwrap_or(default);
            }
        }
    }
    default
}

const KMON_ALL: KMon = KMon { pred: true, get: true, export: true, empty: true, structure: true, slots: true, cblive: false, phys: false, capacity: false };
const KMON_NONE: KMon = KMon { pred: false, get: false, export: false, empty: false, structure: false, slots: false, cblive: false, phys: false, capacity: false };

impl<C: KeyColl> FaultExec for KeyExec<C> {
    type Op = KOp;
    type Book = key::KBook;
    const FAMILY: &'static str = "key";
    fn coll() -> &'static str {
        C::NAME
    }
    fn fresh(ctor: &str) -> Self {
        KeyExec::new(ctor_num(ctor, "hint", 8) as usize)
    }
    fn try_dup(&self) -> Option<Self> {
        self.dup()
    }
    fn book(&self) -> Self::Book {
        KeyExec::book(self)
    }
    fn set_book(&mut self, b: Self::Book) {
        KeyExec::set_book(self, b)
    }
    fn step_quiet(&mut self, op: &KOp, rep: &mut Report) -> Result<(), Fail> {
        self.step(op, &KMON_NONE, rep).map(|_| ())
    }
    fn step_full(&mut self, op: &KOp, rep: &mut Report) -> Result<(), Fail> {
        self.step(op, &KMON_ALL, rep).map(|_| ())
    }
    fn observe(&mut self, rep: &mut Report) -> Result<(), Fail> {
        let t = if self.t_last == i32::MIN { 0 } else { self.t_last };
        let hi = self.model.iter().map(|e| e.0).max().unwrap_or(1) + 2;
        self.step(&KOp::Empty, &KMON_ALL, rep)?;
        for p in -1..=hi {
            self.step(&KOp::Get { t, k: p }, &KMON_ALL, rep)?;
            self.step(&KOp::Fl { t, k: p }, &KMON_ALL, rep)?;
            self.step(&KOp::Fle { t, k: p }, &KMON_ALL, rep)?;
            self.step(&KOp::Fleb { t, k: p, mode: p.rem_euclid(3) as u8 }, &KMON_ALL, rep)?;
        }
        Ok(())
    }
    fn line(op: &KOp) -> String {
        op.line()
    }
    fn consumed(&self) -> bool {
        self.sut.is_none()
    }
    fn state_hash(&self) -> u64 {
        let mut h = 0;
        for e in &self.model {
            h ^= mix(e.0 as u64, e.1.wrapping_sub(self.t_last.max(-1000)) as u64);
        }
        h
    }
    fn align_time(before: &mut Self::Book, after: &Self::Book) {
        before.t_last = before.t_last.max(after.t_last);
    }
}

const OMON_ALL: OMon = OMon { lookup: true, handle: true, steps: true, held: true, structure: true, slots: true, removal_stats: false };
const OMON_NONE: OMon = OMon { lookup: false, handle: false, steps: false, held: false, structure: false, slots: false, removal_stats: false };

impl<C: OrdColl> FaultExec for OrdExec<C> {
    type Op = OOp;
    type Book = ord::OBook;
    const FAMILY: &'static str = "ord";
    fn coll() -> &'static str {
        C::NAME
    }
    fn fresh(ctor: &str) -> Self {
        OrdExec::new(ctor_num(ctor, "hint", 8) as usize, (ctor_num(ctor, "uni", 0) as i32, ctor_hi(ctor, "uni", 20) as i32))
    }
    fn try_dup(&self) -> Option<Self> {
        self.dup()
    }
    fn book(&self) -> Self::Book {
        OrdExec::book(self)
    }
    fn set_book(&mut self, b: Self::Book) {
        OrdExec::set_book(self, b)
    }
    fn step_quiet(&mut self, op: &OOp, rep: &mut Report) -> Result<(), Fail> {
        self.step(op, &OMON_NONE, rep).map(|_| ())
    }
    fn step_full(&mut self, op: &OOp, rep: &mut Report) -> Result<(), Fail> {
        self.step(op, &OMON_ALL, rep).map(|_| ())
    }
    fn observe(&mut self, rep: &mut Report) -> Result<(), Fail> {
        // handles held across a fault are not part of the observable contents
        self.held.clear();
        self.step(&OOp::Empty, &OMON_ALL, rep)?;
        self.step(&OOp::Sweep, &OMON_ALL, rep)?;
        for p in self.uni.0 - 1..=self.uni.1 + 1 {
            self.step(&OOp::Fil { k: p }, &OMON_ALL, rep)?;
        }
        if C::IS_SET {
            self.step(&OOp::WalkF, &OMON_ALL, rep)?;
            self.step(&OOp::WalkB, &OMON_ALL, rep)?;
        }
        Ok(())
    }
    fn line(op: &OOp) -> String {
        op.line()
    }
    fn consumed(&self) -> bool {
        false
    }
    fn state_hash(&self) -> u64 {
        let mut h = self.model.len() as u64;
        for k in self.model.keys() {
            h = mix(h, *k as u64);
        }
        h
    }
}

const SMON_ALL: SMon = SMon { query: true, purge: true, tiling: true, layout: true };
const SMON_NONE: SMon = SMon { query: false, purge: false, tiling: false, layout: false };

impl FaultExec for SegExec<i32> {
    type Op = SOp;
    type Book = crate::seg::SBook;
    const FAMILY: &'static str = "seg";
    fn coll() -> &'static str {
        "SegExpTree"
    }
    fn fresh(ctor: &str) -> Self {
        SegExec::<i32>::new(ctor_num(ctor, "lo", 0), ctor_num(ctor, "hi", 31)).expect("domain accepted")
    }
    fn try_dup(&self) -> Option<Self> {
        None
    }
    fn book(&self) -> Self::Book {
        SegExec::book(self)
    }
    fn set_book(&mut self, b: Self::Book) {
        SegExec::set_book(self, b)
    }
    fn step_quiet(&mut self, op: &SOp, rep: &mut Report) -> Result<(), Fail> {
        self.step(op, &SMON_NONE, rep).map(|_| ())
    }
    fn step_full(&mut self, op: &SOp, rep: &mut Report) -> Result<(), Fail> {
        self.step(op, &SMON_ALL, rep).map(|_| ())
    }
    fn observe(&mut self, rep: &mut Report) -> Result<(), Fail> {
        let t = if self.t_last == i32::MIN { 0 } else { self.t_last };
        self.check_dump(&SMON_ALL, rep, None, None)?;
        let (lo, hi) = (self.lo, self.hi);
        let mid = lo + (hi - lo) / 2;
        self.step(&SOp::Q { lo, hi: mid, t, take: -1 }, &SMON_ALL, rep)?;
        self.step(&SOp::Q { lo: mid, hi, t, take: -1 }, &SMON_ALL, rep)?;
        self.step(&SOp::Q { lo, hi, t, take: -1 }, &SMON_ALL, rep)?;
        Ok(())
    }
    fn line(op: &SOp) -> String {
        op.line()
    }
    fn consumed(&self) -> bool {
        false
    }
    fn state_hash(&self) -> u64 {
        let mut h = self.model.len() as u64;
        for m in &self.model {
            h = mix(h, mix(m.blo as u64, m.bhi as u64));
        }
        h
    }
    fn align_time(before: &mut Self::Book, after: &Self::Book) {
        before.t_last = before.t_last.max(after.t_last);
    }
}

fn rebuild<X: FaultExec>(ctor: &str, prefix: &[X::Op], rep: &mut Report) -> Result<X, Fail> {
    let mut x = X::fresh(ctor);
    for op in prefix {
        x.step_quiet(op, rep)?;
    }
    Ok(x)
}

fn mk_viol<X: FaultExec>(sig: String, msg: String, ctor: &str, ops: &[X::Op], upto: usize, inject: Option<(usize, u64)>) -> Viol {
    let mut lines: Vec<String> = ops[..=upto.min(ops.len() - 1)].iter().map(|o| X::line(o)).collect();
    if let Some((i, j)) = inject {
        lines.push(format!("#inject op={} callback={}", i, j));
    }
    Viol { sig: format!("{}:{}", X::coll(), sig), msg, family: X::FAMILY.into(), coll: X::coll().into(), ctor: ctor.to_string(), ops: lines, confirmed: true }
}

/// enumerate every injection point of one history; `only_inject` restricts to one (replay)
pub fn fault_history<X: FaultExec>(ctor: &str, ops: &[X::Op], rep: &mut Report, hist: u64, only_inject: Option<(usize, u64)>) {
    fault_history_from::<X>(ctor, ops, rep, hist, only_inject, 0)
}

thread_local! {
    /// restrict the enumeration to callbacks of one kind (set by the suite from `--only_kind`)
    static ONLY_KIND: std::cell::Cell<Option<u8>> = std::cell::Cell::new(None);
}
pub fn set_only_kind(name: Option<&str>) {
    let k = name.and_then(|n| cb::KIND_NAMES.iter().position(|x| *x == n)).map(|i| i as u8);
    ONLY_KIND.with(|c| c.set(k));
}

/// as `fault_history`, but injection points are enumerated only for operations at index >=
/// `from_op` (the earlier ones are just the path to the state of interest)
pub fn fault_history_from<X: FaultExec>(ctor: &str, ops: &[X::Op], rep: &mut Report, hist: u64, only_inject: Option<(usize, u64)>, from_op: usize) {
    let base_live = cb::ledger_live();
    let only_kind = ONLY_KIND.with(|c| c.get());
    let mut scratch = Report::new(); // quiet prefix runs must not inflate the evidence counters
    ctx::set(hist, 0);
    let mut cur: X = X::fresh(ctor);
    for i in 0..ops.len() {
        if cur.consumed() {
            break;
        }
        ctx::set(hist, i as u64);
        let op = ops[i];
        // reference run of op i: number of callbacks and the "after" bookkeeping
        let book_before = cur.book();
        let mut after: X = match cur.try_dup() {
            Some(d) => d,
            None => match rebuild::<X>(ctor, &ops[..i], &mut scratch) {
                Ok(x) => x,
                Err(f) => {
                    rep.note(format!("fault: prefix replay failed: {} {}", f.sig, f.msg));
                    return;
                }
            },
        };
        cb::reset_count();
        cb::disarm();
        if only_kind.is_some() {
            cb::log_enable(true);
        }
        if let Err(f) = after.step_quiet(&op, &mut scratch) {
            rep.note(format!("fault: reference run failed: {} {}", f.sig, f.msg));
            return;
        }
        let kinds: Vec<cb::CbKind> = if only_kind.is_some() { cb::log_kinds() } else { Vec::new() };
        cb::log_enable(false);
        let n = if i < from_op && only_inject.is_none() { 0 } else { cb::count() };
        let book_after = after.book();
        let mut book_before = book_before;
        X::align_time(&mut book_before, &book_after);
        rep.counters.add("callbacks_in_reference_runs", n);
        rep.counters.inc("operations_enumerated");
        for j in 0..n {
            if let Some((oi, oj)) = only_inject {
                if oi != i || oj != j {
                    continue;
                }
            }
            if let Some(k) = only_kind {
                if kinds.get(j as usize).map(|x| *x as u8) != Some(k) {
                    continue;
                }
            }
            ctx::set(hist, ((i as u64) << 20) | j);
            let mut b: X = match cur.try_dup() {
                Some(d) => d,
                None => match rebuild::<X>(ctor, &ops[..i], &mut scratch) {
                    Ok(x) => x,
                    Err(_) => return,
                },
            };
            cb::reset_count();
            // every other injection point is "sticky": the callback keeps panicking for the rest
            // of the operation (on the unchanged library nothing runs user code while unwinding)
            if j % 2 == 1 {
                cb::arm_sticky(j);
                rep.counters.inc("injections_with_persistently_failing_callback");
            } else {
                cb::arm(j);
            }
            let r = catch_unwind(AssertUnwindSafe(|| b.step_quiet(&op, &mut scratch)));
            cb::disarm();
            rep.evaluations += 1;
            match r {
                Ok(_) => {
                    rep.counters.inc("armed_callback_not_reached");
                    continue;
                }
                Err(p) => {
                    if p.downcast_ref::<cb::Injected>().is_none() {
                        let msg = p.downcast_ref::<String>().cloned().or_else(|| p.downcast_ref::<&str>().map(|s| s.to_string())).unwrap_or_default();
                        rep.violation(mk_viol::<X>("fault:library-panic".into(), format!("library panicked on its own while callback {} of op {} was armed: {}", j, i, msg), ctor, ops, i, Some((i, j))));
                        continue;
                    }
                }
            }
            let kind = cb::fired().map(|k| cb::KIND_NAMES[k as usize]).unwrap_or("unknown");
            rep.counters.inc(&format!("injected_{}", kind));
            rep.counters.inc(&format!("injected_into_{}", X::coll()));
            rep.case(mix(hash_bytes(X::line(&op).as_bytes()), mix(j, mix(cur.state_hash(), hash_bytes(X::coll().as_bytes())))));
            if b.consumed() {
                // the operation owned the collection (export): nothing left to observe
                rep.counters.inc("outcome_consumed");
                continue;
            }
            // un-torn: contents are those before the operation, or those after it
            b.set_book(book_before.clone());
            let before = b.observe(&mut scratch);
            let chosen = match before {
                Ok(()) => {
                    rep.counters.inc("outcome_contents_as_before");
                    Ok(())
                }
                Err(fb) => {
                    b.set_book(book_after.clone());
                    match b.observe(&mut scratch) {
                        Ok(()) => {
                            rep.counters.inc("outcome_contents_as_after");
                            Ok(())
                        }
                        Err(fa) => Err((fb, fa)),
                    }
                }
            };
            if let Err((fb, fa)) = chosen {
                rep.violation(mk_viol::<X>(
                    format!("fault:torn-or-invalid:{}", fb.sig),
                    format!("after a panic in callback {} ({}) of `{}`: not the state before ({}: {}) and not the state after ({}: {})", j, kind, X::line(&op), fb.sig, fb.msg, fa.sig, fa.msg),
                    ctor,
                    ops,
                    i,
                    Some((i, j)),
                ));
                continue;
            }
            // usable: the rest of the history still behaves
            for (k, op2) in ops.iter().enumerate().skip(i + 1) {
                if b.consumed() {
                    break;
                }
                if let Err(f) = b.step_full(op2, &mut scratch) {
                    if f.sig.starts_with("HARNESS") {
                        break;
                    }
                    rep.violation(mk_viol::<X>(
                        format!("fault:later-failure:{}", f.sig),
                        format!("after a caught panic in callback {} ({}) of op {} the continued history failed at op {}: {}", j, kind, i, k, f.msg),
                        ctor,
                        ops,
                        k,
                        Some((i, j)),
                    ));
                    break;
                }
            }
            rep.counters.add("ops_continued_after_fault", (ops.len() - i - 1) as u64);
        }
        // advance the un-faulted instance
        cur = after;
    }
    drop(cur);
    if cb::ledger_live() != base_live {
        rep.violation(mk_viol::<X>(
            "fault:ledger".into(),
            format!("{} payload instances outlive all dropped collections (leak or double drop after a caught panic)", cb::ledger_live() - base_live),
            ctor,
            ops,
            ops.len() - 1,
            None,
        ));
    }
    rep.counters.add("snapshots_checked", scratch.counters.get("snapshots_checked"));
}

pub const COLLS: [&str; 7] = ["KeyExpTree", "KeyExpList", "MapTree", "MapList", "SetTree", "SetList", "SegExpTree"];

/// history `h`: collection = h % 7, short histories so that every injection point is affordable
pub fn history_for(cfg: &Cfg, h: u64) -> (&'static str, String, Vec<String>) {
    let coll = COLLS[(h % 7) as usize];
    let mut rng = Rng::new(cfg.seed).derive(0xFA17).derive(h);
    let len = cfg.num("len", 18) as usize;
    // one history in 8 (not under Miri-sized runs): a bulk prefix that is not enumerated ("#from N"),
    // so that faults hit operations on collections holding 65..260 entries (long purges, deep
    // descents, full place lists)
    let bulk = cfg.num("bulk", 1) != 0 && (h / 7) % 8 == 3;
    if bulk {
        let n = rng.range(65, 260) as usize;
        let mut lines: Vec<String> = Vec::new();
        match coll {
            "KeyExpTree" | "KeyExpList" => {
                let mut keys: Vec<i32> = (0..n as i32).collect();
                rng.shuffle(&mut keys);
                for &k in &keys {
                    let exp = if rng.chance(1, 3) { rng.range(3, 6) } else { 100 };
                    lines.push(KOp::Ins { k: 2 * k, exp: exp as i32, t: 0 }.line());
                }
                lines.push(format!("#from {}", n));
                for t in [5, 5, 6, 7] {
                    let p = rng.range(-1, 2 * n as i64) as i32;
                    lines.push(match rng.below(5) {
                        0 => KOp::Get { t, k: p },
                        1 => KOp::Fl { t, k: p },
                        2 => KOp::Fle { t, k: p },
                        3 => KOp::Fleb { t, k: p, mode: rng.below(3) as u8 },
                        _ => KOp::Ins { k: 2 * n as i32 + 2 * t, exp: t + 3, t },
                    }
                    .line());
                }
                lines.push(KOp::Export { t: 8 }.line());
                return (coll, "hint=8".to_string(), lines);
            }
            "SegExpTree" => {
                // many values in the same place lists, a third of them expiring early
                for i in 0..n {
                    let a = rng.range(0, 3);
                    lines.push(SOp::Ins { lo: a, hi: a + rng.range(0, 9), exp: if i % 3 == 0 { rng.range(2, 5) as i32 } else { 50 } }.line());
                }
                lines.push(format!("#from {}", n));
                lines.push(SOp::Q { lo: 0, hi: 2, t: 5, take: -1 }.line());
                lines.push(SOp::Ins { lo: 1, hi: 14, exp: 9 }.line());
                lines.push(SOp::Q { lo: 0, hi: 31, t: 6, take: -1 }.line());
                return (coll, "coord=i32 lo=0 hi=31".to_string(), lines);
            }
            _ => {
                let mut keys: Vec<i32> = (0..n as i32).collect();
                rng.shuffle(&mut keys);
                for &k in &keys {
                    lines.push(OOp::Ins { k: 2 * k }.line());
                }
                lines.push(format!("#from {}", n));
                for _ in 0..5 {
                    let p = rng.range(-1, 2 * n as i64) as i32;
                    lines.push(match rng.below(6) {
                        0 => OOp::Ins { k: 2 * p.max(0) + 1 },
                        1 => OOp::Del { k: 2 * (p.max(0) / 2) },
                        2 => OOp::DelH { k: p },
                        3 => OOp::FilB { k: p, mode: rng.below(3) as u8 },
                        4 => OOp::Wrh { k: p },
                        _ => OOp::Get { k: p },
                    }
                    .line());
                }
                return (coll, format!("hint=8 uni=-1..{}", 4 * n + 2), lines);
            }
        }
    }
    match coll {
        "KeyExpTree" | "KeyExpList" => {
            let kp = key::profiles(false);
            // tiny-dense, small-coincidence, stall-clock, fast-clock and the two extreme-clock profiles
            let pick = [0usize, 1, 2, 3, kp.len() - 3, kp.len() - 2][(h / 7 % 6) as usize];
            let mut p = kp[pick].clone();
            p.len = len;
            p.u = p.u.min(7);
            p.sweep_every = 0;
            let (hint, ops) = key::gen_history(&p, &mut rng);
            (coll, format!("hint={}", hint), ops.iter().map(|o| o.line()).collect())
        }
        "SegExpTree" => {
            // (the fault executor is instantiated for 32-bit coordinates: skip the 64-bit domain slot)
            let hh = if (h / 7) % 13 == 7 { h / 7 + 1 } else { h / 7 };
            let ((lo, hi), ops) = crate::seg_suites::gen_history(&mut rng, hh, len);
            (coll, format!("coord=i32 lo={} hi={}", lo, hi), ops.iter().map(|o| o.line()).collect())
        }
        _ => {
            let mut p = ord::profiles(false)[(h / 7 % 2) as usize].clone();
            p.len = len;
            p.u = p.u.min(8);
            let (hint, uni, ops) = ord::gen_history(&p, coll.starts_with("Set"), &mut rng);
            (coll, format!("hint={} uni={}..{}", hint, uni.0, uni.1), ops.iter().map(|o| o.line()).collect())
        }
    }
}

pub fn run_lines(coll: &str, ctor: &str, lines: &[String], rep: &mut Report, hist: u64, only: Option<(usize, u64)>) {
    let clean: Vec<&String> = lines.iter().filter(|l| !l.starts_with('#')).collect();
    let from_op: usize = lines.iter().find_map(|l| l.strip_prefix("#from ").and_then(|x| x.trim().parse().ok())).unwrap_or(0);
    if from_op > 0 {
        rep.counters.inc("bulk_histories");
    }
    match coll {
        "KeyExpTree" | "KeyExpList" => {
            let ops: Vec<KOp> = clean.iter().filter_map(|l| KOp::parse(l)).collect();
            if coll == "KeyExpTree" {
                fault_history_from::<KeyExec<KTree>>(ctor, &ops, rep, hist, only, from_op)
            } else {
                fault_history_from::<KeyExec<KList>>(ctor, &ops, rep, hist, only, from_op)
            }
        }
        "SegExpTree" => {
            let ops: Vec<SOp> = clean.iter().filter_map(|l| SOp::parse(l)).collect();
            fault_history_from::<SegExec<i32>>(ctor, &ops, rep, hist, only, from_op)
        }
        _ => {
            let ops: Vec<OOp> = clean.iter().filter_map(|l| OOp::parse(l)).collect();
            match coll {
                "MapTree" => fault_history_from::<OrdExec<MTree>>(ctor, &ops, rep, hist, only, from_op),
                "MapList" => fault_history_from::<OrdExec<MList>>(ctor, &ops, rep, hist, only, from_op),
                "SetTree" => fault_history_from::<OrdExec<STree>>(ctor, &ops, rep, hist, only, from_op),
                _ => fault_history_from::<OrdExec<SList>>(ctor, &ops, rep, hist, only, from_op),
            }
        }
    }
}

pub fn suite_fault(cfg: &Cfg, rep: &mut Report) {
    // --clonefault 1: cloning a caller-inserted value counts as a callback; --only_kind <name>:
    // enumerate only that kind; --colls A,B: only these collections
    cb::clone_hook(cfg.flag("clonefault"));
    set_only_kind(cfg.get("only_kind"));
    let colls: Option<Vec<String>> = cfg.get("colls").map(|s| s.split(',').map(|x| x.to_string()).collect());
    let mut h = cfg.shard;
    while h < cfg.budget {
        if let Some(o) = cfg.only {
            if h != o {
                h += cfg.nshards;
                continue;
            }
        }
        let (coll, ctor, lines) = history_for(cfg, h);
        if let Some(cs) = &colls {
            if !cs.iter().any(|c| c == coll) {
                h += cfg.nshards;
                continue;
            }
        }
        if cfg.emit {
            println!("CTOR coll={} {}", coll, ctor);
            for l in &lines {
                println!("OP {}", l);
            }
            return;
        }
        if rep.samples.len() < 2 {
            rep.sample(J::obj(vec![
                ("history", J::UInt(h)),
                ("collection", J::s(coll)),
                ("ctor", J::s(ctor.clone())),
                ("ops", J::strs(&lines)),
                ("procedure", J::s("for each op i and each callback j it makes: rebuild the state before op i, arm callback j to panic, run op i under catch_unwind, check structure + contents (before or after), continue the history under all monitors")),
            ]));
        }
        rep.histories += 1;
        rep.counters.inc(&format!("histories_{}", coll));
        run_lines(coll, &ctor, &lines, rep, h, None);
        h += cfg.nshards;
    }
}
