//! Small std-only utilities: PRNG, hashing, JSON writer, counters.
use std::collections::BTreeMap;
use std::fmt::Write as _;

#[derive(Clone)]
pub struct Rng(pub u64);

impl Rng {
    pub fn new(seed: u64) -> Self {
        Rng(seed ^ 0x9E37_79B9_7F4A_7C15)
    }
    /// independent stream for (self, tag)
    pub fn derive(&self, tag: u64) -> Rng {
        Rng(mix(self.0, tag.wrapping_mul(0xD6E8_FEB8_6659_FD93).wrapping_add(0x2545_F491_4F6C_DD1D)))
    }
    #[inline]
    pub fn next(&mut self) -> u64 {
        self.0 = self.0.wrapping_add(0x9E37_79B9_7F4A_7C15);
        let mut z = self.0;
        z = (z ^ (z >> 30)).wrapping_mul(0xBF58_476D_1CE4_E5B9);
        z = (z ^ (z >> 27)).wrapping_mul(0x94D0_49BB_1331_11EB);
        z ^ (z >> 31)
    }
    #[inline]
    pub fn below(&mut self, n: u64) -> u64 {
        debug_assert!(n > 0);
        self.next() % n
    }
    /// inclusive range
    #[inline]
    pub fn range(&mut self, lo: i64, hi: i64) -> i64 {
        debug_assert!(lo <= hi);
        let span = (hi as i128 - lo as i128 + 1) as u128;
        (lo as i128 + (self.next() as u128 % span) as i128) as i64
    }
    #[inline]
    pub fn chance(&mut self, num: u64, den: u64) -> bool {
        self.below(den) < num
    }
    pub fn pick<'a, T>(&mut self, v: &'a [T]) -> &'a T {
        &v[self.below(v.len() as u64) as usize]
    }
    pub fn shuffle<T>(&mut self, v: &mut [T]) {
        for i in (1..v.len()).rev() {
            let j = self.below(i as u64 + 1) as usize;
            v.swap(i, j);
        }
    }
}

#[inline]
pub fn mix(a: u64, b: u64) -> u64 {
    let mut z = a ^ b.wrapping_mul(0x9E37_79B9_7F4A_7C15).rotate_left(23);
    z = (z ^ (z >> 30)).wrapping_mul(0xBF58_476D_1CE4_E5B9);
    z = (z ^ (z >> 27)).wrapping_mul(0x94D0_49BB_1331_11EB);
    z ^ (z >> 31)
}

pub fn hash_bytes(b: &[u8]) -> u64 {
    let mut h = 0xcbf2_9ce4_8422_2325u64;
    for &x in b {
        h = (h ^ x as u64).wrapping_mul(0x0000_0100_0000_01B3);
    }
    mix(h, b.len() as u64)
}

#[derive(Clone, Debug)]
pub enum J {
    Null,
    Bool(bool),
    Int(i64),
    UInt(u64),
    Float(f64),
    Str(String),
    Arr(Vec<J>),
    Obj(Vec<(String, J)>),
}

impl J {
    pub fn s<T: Into<String>>(t: T) -> J {
        J::Str(t.into())
    }
    pub fn obj(v: Vec<(&str, J)>) -> J {
        J::Obj(v.into_iter().map(|(k, v)| (k.to_string(), v)).collect())
    }
    pub fn strs(v: &[String]) -> J {
        J::Arr(v.iter().map(|s| J::Str(s.clone())).collect())
    }
    pub fn write(&self, out: &mut String) {
        match self {
            J::Null => out.push_str("null"),
            J::Bool(b) => out.push_str(if *b { "true" } else { "false" }),
            J::Int(i) => {
                let _ = write!(out, "{}", i);
            }
            J::UInt(i) => {
                let _ = write!(out, "{}", i);
            }
            J::Float(f) => {
                if f.is_finite() {
                    let _ = write!(out, "{}", f);
                } else {
                    out.push_str("null");
                }
            }
            J::Str(s) => {
                out.push('"');
                for c in s.chars() {
                    match c {
                        '"' => out.push_str("\\\""),
                        '\\' => out.push_str("\\\\"),
                        '\n' => out.push_str("\\n"),
                        '\r' => out.push_str("\\r"),
                        '\t' => out.push_str("\\t"),
                        c if (c as u32) < 0x20 => {
                            let _ = write!(out, "\\u{:04x}", c as u32);
                        }
                        c => out.push(c),
                    }
                }
                out.push('"');
            }
            J::Arr(v) => {
                out.push('[');
                for (i, x) in v.iter().enumerate() {
                    if i > 0 {
                        out.push(',');
                    }
                    x.write(out);
                }
                out.push(']');
            }
            J::Obj(v) => {
                out.push('{');
                for (i, (k, x)) in v.iter().enumerate() {
                    if i > 0 {
                        out.push(',');
                    }
                    J::Str(k.clone()).write(out);
                    out.push(':');
                    x.write(out);
                }
                out.push('}');
            }
        }
    }
    pub fn to_string(&self) -> String {
        let mut s = String::new();
        self.write(&mut s);
        s
    }
}

/// Named counters. `add` sums across shards, `max_` keys (prefix "max_") take the maximum,
/// `min_` keys the minimum; the driver follows the same convention when merging reports.
#[derive(Default, Clone)]
pub struct Counters(pub BTreeMap<String, u64>);

impl Counters {
    #[inline]
    pub fn inc(&mut self, k: &str) {
        self.add(k, 1)
    }
    #[inline]
    pub fn add(&mut self, k: &str, n: u64) {
        if let Some(v) = self.0.get_mut(k) {
            *v += n;
        } else {
            self.0.insert(k.to_string(), n);
        }
    }
    pub fn max(&mut self, k: &str, n: u64) {
        debug_assert!(k.starts_with("max_"));
        let e = self.0.entry(k.to_string()).or_insert(0);
        if n > *e {
            *e = n;
        }
    }
    pub fn get(&self, k: &str) -> u64 {
        self.0.get(k).copied().unwrap_or(0)
    }
    pub fn to_json(&self) -> J {
        J::Obj(self.0.iter().map(|(k, v)| (k.clone(), J::UInt(*v))).collect())
    }
}
