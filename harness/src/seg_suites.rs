//! Workloads for the segment tree: exhaustive range pairs on the 32-point domain, seeded random
//! histories over many domains, and the domain / bucket-mapping grid.
use crate::ctx;
use crate::report::{Cfg, Fail, Report, Viol};
use crate::seg::*;
use crate::util::{mix, Rng, J};

fn viol(f: &Fail, ctor: String, ops: &[SOp]) -> Viol {
    Viol { sig: format!("SegExpTree:{}", f.sig), msg: f.msg.clone(), family: "seg".into(), coll: "SegExpTree".into(), ctor, ops: ops.iter().map(|o| o.line()).collect(), confirmed: true }
}

pub fn handle_fail(rep: &mut Report, f: Fail, ctor: String, ops: &[SOp]) {
    if f.sig.starts_with("HARNESS") {
        rep.note(format!("harness contract breach: {} {}", f.sig, f.msg));
    } else {
        rep.violation(viol(&f, ctor, ops));
    }
}

/// all 528 bucket ranges [a,b], 0 <= a <= b <= 31
pub fn all_ranges() -> Vec<(i64, i64)> {
    let mut v = Vec::with_capacity(528);
    for a in 0..32 {
        for b in a..32 {
            v.push((a, b));
        }
    }
    v
}

/// C15 / C03: every (insert range, query range) pair on a tree over [0,31].
/// variant 0: one value, no expiry. variant 1: expirations around the query time, a second value.
pub fn suite_seg_pairs(cfg: &Cfg, rep: &mut Report) {
    let mon = SMon::from_list(cfg.str_or("mon", "all"));
    let variant = cfg.num("variant", 0);
    let stride = cfg.num("stride", 1).max(1) as usize; // >1: sample of the query ranges (Miri)
    let ranges = all_ranges();
    let mut complete = stride == 1;
    for (ri, &(a, b)) in ranges.iter().enumerate() {
        if ri as u64 % cfg.nshards != cfg.shard {
            continue;
        }
        let mut ops: Vec<SOp> = Vec::new();
        let mut ex = match SegExec::<i32>::new(0, 31) {
            Some(e) => e,
            None => {
                rep.violation(viol(&Fail::new("new:refused", "SegExpTree::new refused the 32-point domain [0,31]"), "coord=i32 lo=0 hi=31".into(), &[]));
                return;
            }
        };
        let ctor = ex.ctor();
        let mut run = |ex: &mut SegExec<i32>, op: SOp, ops: &mut Vec<SOp>, rep: &mut Report| -> bool {
            ops.push(op);
            ctx::set(ri as u64, ops.len() as u64);
            match ex.step(&op, &mon, rep) {
                Ok(_) => true,
                Err(f) => {
                    handle_fail(rep, f, ctor.clone(), ops);
                    false
                }
            }
        };
        rep.histories += 1;
        if variant == 0 {
            if !run(&mut ex, SOp::Ins { lo: a, hi: b, exp: 10 }, &mut ops, rep) {
                complete = false;
                continue;
            }
            for (qi, &(c, d)) in ranges.iter().enumerate() {
                if qi % stride != (ri % stride) {
                    continue;
                }
                if !run(&mut ex, SOp::Q { lo: c, hi: d, t: 0, take: -1 }, &mut ops, rep) {
                    complete = false;
                    break;
                }
                rep.case(mix(ri as u64, qi as u64));
                ops.pop();
            }
        } else {
            // value 1 expires exactly at the query time (still yielded), value 2 one tick earlier
            // (never yielded), value 3 lives on; a second range mirrors the first
            let (a2, b2) = (31 - b, 31 - a);
            let pre = [SOp::Ins { lo: a, hi: b, exp: 5 }, SOp::Ins { lo: a, hi: b, exp: 4 }, SOp::Ins { lo: a2, hi: b2, exp: 9 }];
            let mut ok = true;
            for op in pre {
                ok &= run(&mut ex, op, &mut ops, rep);
            }
            if !ok {
                complete = false;
                continue;
            }
            for (qi, &(c, d)) in ranges.iter().enumerate() {
                if qi % stride != (ri % stride) {
                    continue;
                }
                // a fresh tree per query: the query at t=5 physically removes value 2
                let mut e2 = SegExec::<i32>::new(0, 31).unwrap();
                let mut o2: Vec<SOp> = Vec::new();
                let mut ok = true;
                for op in pre {
                    ok &= run(&mut e2, op, &mut o2, rep);
                }
                ok = ok && run(&mut e2, SOp::Q { lo: c, hi: d, t: 5, take: -1 }, &mut o2, rep);
                // repeated query at the same time, then a partially consumed one, then one tick later
                ok = ok && run(&mut e2, SOp::Q { lo: c, hi: d, t: 5, take: -1 }, &mut o2, rep);
                ok = ok && run(&mut e2, SOp::Q { lo: c, hi: d, t: 5, take: 1 }, &mut o2, rep);
                ok = ok && run(&mut e2, SOp::Q { lo: c, hi: d, t: 6, take: -1 }, &mut o2, rep);
                if !ok {
                    complete = false;
                    break;
                }
                rep.case(mix(ri as u64, qi as u64) ^ 0x55);
            }
        }
        if rep.samples.len() < 2 && ri % 97 == 13 {
            rep.sample(J::obj(vec![("tree", J::s("SegExpTree<i32> over [0,31]")), ("inserted_range", J::Arr(vec![J::Int(a), J::Int(b)])), ("queried", J::s(format!("all {} ranges (stride {})", ranges.len(), stride))), ("variant", J::Int(variant))]));
        }
    }
    rep.exhaustive = Some(complete);
}

// ---------------------------------------------------------------------------------------------

/// domains for random histories: (lo, hi)
pub fn domains(rng: &mut Rng, h: u64) -> (i64, i64) {
    // one history in 13: a 64-bit domain wider than 2^32 points (coordinate type i64)
    if h % 13 == 7 {
        // a quarter of those: more points than i64::MAX (up to the whole 64-bit range)
        if rng.chance(1, 4) {
            let r = rng.range(0, 1 << 40);
            return match rng.below(5) {
                0 => (i64::MIN, i64::MAX),
                1 => (i64::MIN, rng.range(0, i64::MAX - 1)),
                2 => (rng.range(i64::MIN + 1, -2), i64::MAX),
                3 => (-(1i64 << 62) - r, (1i64 << 62) + r + 2),
                _ => (i64::MIN + r, i64::MAX - rng.range(0, 1 << 20)),
            };
        }
        let k = rng.range(33, 62);
        let len = (1i64 << k) + rng.range(-3, 3);
        let lo = match rng.below(4) {
            0 => 0,
            1 => -(len / 2),
            2 => i64::MIN / 2,
            _ => i64::MAX - len,
        };
        return (lo, lo + len - 1);
    }
    match h % 10 {
        0 => (0, 31),
        1 => {
            let len = rng.range(17, 32);
            let lo = rng.range(-40, 40);
            (lo, lo + len - 1)
        }
        2 => {
            let len = rng.range(33, 1000);
            let lo = rng.range(-500, 500);
            (lo, lo + len - 1)
        }
        3 => {
            let k = rng.range(5, 31);
            let len = (1i64 << k) + rng.range(-1, 1);
            let lo = if rng.chance(1, 2) { -(len / 2) } else { 0 };
            (lo, lo + len.max(17) - 1)
        }
        4 => (i32::MIN as i64, i32::MAX as i64),
        5 => (-10240, 15360),
        6 => (0, 128),
        7 => {
            let len = rng.range(17, 70);
            (-len + 1, 0)
        }
        8 => (i32::MAX as i64 - rng.range(16, 5000), i32::MAX as i64),
        _ => (i32::MIN as i64, i32::MIN as i64 + rng.range(16, 100_000)),
    }
}

pub fn gen_history(rng: &mut Rng, h: u64, len: usize) -> ((i64, i64), Vec<SOp>) {
    let (mut lo, mut hi) = domains(rng, h);
    let wide = hi as i128 - lo as i128 >= (1i128 << 32);
    if !wide {
        if hi > i32::MAX as i64 {
            lo -= hi - i32::MAX as i64;
            hi = i32::MAX as i64;
        }
        if lo < i32::MIN as i64 {
            lo = i32::MIN as i64;
        }
    }
    // offsets are computed in 128 bits: a 64-bit domain may hold more than i64::MAX points
    let span: u128 = (hi as i128 - lo as i128) as u128;
    let at = move |off: u128| -> i64 { (lo as i128 + off.min(span) as i128) as i64 };
    let mut ops = Vec::with_capacity(len);
    // extreme clocks in two of seven histories
    let t_base: i32 = match h % 7 {
        5 => i32::MAX - 4000,
        6 => i32::MIN + 3,
        _ => 0,
    };
    let mut t: i32 = t_base + rng.range(-2, 3) as i32;
    let short_lived = h % 3 == 0;
    // bucket edges of the expected layout make good coordinates
    let shift = expected_shift(span + 1);
    let coord = |rng: &mut Rng| -> i64 {
        match rng.below(4) {
            0 => at((((rng.next() as u128) << 64) | rng.next() as u128) % (span + 1)),
            1 => {
                let b = rng.range(0, 31);
                let x = lo as i128 + ((b as i128) << shift) + rng.range(-1, 1) as i128;
                x.clamp(lo as i128, hi as i128) as i64
            }
            2 => {
                if rng.chance(1, 2) {
                    lo
                } else {
                    hi
                }
            }
            _ => at(rng.range(0, 64) as u128),
        }
    };
    let range = |rng: &mut Rng| -> (i64, i64) {
        let a = coord(rng);
        match rng.below(4) {
            0 => (a, a),
            1 => (lo, hi),
            _ => {
                let b = coord(rng);
                (a.min(b), a.max(b))
            }
        }
    };
    while ops.len() < len {
        if rng.chance(1, 3) {
            t += rng.range(1, 3) as i32;
        }
        match rng.below(100) {
            0..=44 => {
                let (a, b) = range(rng);
                let d = if short_lived { rng.range(-1, 3) } else { rng.range(-1, 12) } as i32;
                ops.push(SOp::Ins { lo: a, hi: b, exp: t + d });
            }
            45..=84 => {
                let (a, b) = range(rng);
                let take = if rng.chance(1, 4) { rng.range(0, 3) as i32 } else { -(rng.range(1, 8) as i32) };
                ops.push(SOp::Q { lo: a, hi: b, t, take });
                if rng.chance(1, 5) {
                    ops.push(SOp::Q { lo: a, hi: b, t, take: -1 });
                }
            }
            85..=96 => ops.push(SOp::Q { lo, hi, t, take: -(rng.range(1, 8) as i32) }),
            _ => {
                ops.push(SOp::Clear);
                if rng.chance(1, 2) {
                    t = rng.range(t_base as i64 - 2, t as i64) as i32;
                }
            }
        }
    }
    ops.push(SOp::Q { lo, hi, t, take: -1 });
    ((lo, hi), ops)
}

pub fn history_for(cfg: &Cfg, h: u64) -> ((i64, i64), Vec<SOp>) {
    let mut rng = Rng::new(cfg.seed).derive(0x5345_47).derive(h);
    let len = cfg.num("len", if h % 7 == 0 { 400 } else { 80 }) as usize;
    gen_history(&mut rng, h, len)
}

pub fn run_history(dom: (i64, i64), ops: &[SOp], mon: &SMon, rep: &mut Report, hist: u64) -> Result<(), (Fail, usize, String)> {
    if dom.0 < i32::MIN as i64 || dom.1 > i32::MAX as i64 {
        run_history_t::<i64>(dom, ops, mon, rep, hist)
    } else {
        run_history_t::<i32>(dom, ops, mon, rep, hist)
    }
}

fn run_history_t<R: Coord>(dom: (i64, i64), ops: &[SOp], mon: &SMon, rep: &mut Report, hist: u64) -> Result<(), (Fail, usize, String)>
where
    i64: From<R>,
{
    ctx::set(hist, 0); // a crash inside the constructor belongs to this history too
    let mut ex = match SegExec::<R>::new(dom.0, dom.1) {
        Some(e) => e,
        None => return Err((Fail::new("new:refused", format!("SegExpTree::new refused the domain [{},{}]", dom.0, dom.1)), 0, format!("coord={} lo={} hi={}", R::NAME, dom.0, dom.1))),
    };
    for (i, op) in ops.iter().enumerate() {
        ctx::set(hist, i as u64);
        if let Err(f) = ex.step(op, mon, rep) {
            return Err((f, i, ex.ctor()));
        }
    }
    Ok(())
}

pub fn suite_seg_random(cfg: &Cfg, rep: &mut Report) {
    let mon = SMon::from_list(cfg.str_or("mon", "all"));
    let mut h = cfg.shard;
    while h < cfg.budget {
        if let Some(o) = cfg.only {
            if h != o {
                h += cfg.nshards;
                continue;
            }
        }
        let (dom, ops) = history_for(cfg, h);
        if cfg.emit {
            println!("CTOR coord={} lo={} hi={}", if dom.0 < i32::MIN as i64 || dom.1 > i32::MAX as i64 { "i64" } else { "i32" }, dom.0, dom.1);
            for o in &ops {
                println!("OP {}", o.line());
            }
            return;
        }
        if dom.0 < i32::MIN as i64 || dom.1 > i32::MAX as i64 {
            rep.counters.inc("histories_on_64bit_domains_wider_than_2pow32");
            if (dom.1 as i128 - dom.0 as i128) >= i64::MAX as i128 {
                rep.counters.inc("histories_on_domains_with_more_points_than_i64_max");
            }
        }
        if rep.samples.is_empty() {
            rep.sample(J::obj(vec![
                ("history", J::UInt(h)),
                ("domain", J::Arr(vec![J::Int(dom.0), J::Int(dom.1)])),
                ("ops_total", J::UInt(ops.len() as u64)),
                ("first_ops", J::Arr(ops.iter().take(30).map(|o| J::s(o.line())).collect())),
            ]));
        }
        rep.histories += 1;
        rep.counters.add("ops_executed", ops.len() as u64);
        rep.counters.inc(&format!("domain_kind_{}", h % 10));
        if let Err((f, i, ctor)) = run_history(dom, &ops, &mon, rep, h) {
            handle_fail(rep, f, ctor, &ops[..=i.min(ops.len() - 1)]);
        }
        h += cfg.nshards;
    }
}

// ---------------------------------------------------------------------------------------------
// C14: domains and bucket mapping

/// Miri runs a thinned set of bucket edges per domain (`--edge_step`)
static EDGE_STEP: std::sync::atomic::AtomicU32 = std::sync::atomic::AtomicU32::new(1);
/// how many clear-and-reuse rounds follow each built domain (`--reuse_rounds`, Miri runs 1)
static REUSE_ROUNDS: std::sync::atomic::AtomicU32 = std::sync::atomic::AtomicU32::new(2);

fn check_domain<R: Coord>(rep: &mut Report, lo: i64, hi: i64, hist: u64) -> Result<(), (Fail, Vec<SOp>)>
where
    i64: From<R>,
{
    let len = (hi as i128 - lo as i128 + 1) as u128;
    rep.evaluations += 1;
    ctx::set(hist, 0);
    let ex = SegExec::<R>::new(lo, hi);
    let mon = SMon { query: true, purge: false, tiling: true, layout: true };
    let mut ops: Vec<SOp> = Vec::new();
    match (ex, len > 16) {
        (None, false) => {
            rep.counters.inc("domains_refused_as_required");
            rep.case(mix(0xD0, mix(len as u64, lo as u64)));
            Ok(())
        }
        (None, true) => Err((Fail::new("new:refused", format!("SegExpTree::<{}>::new refused a domain of {} points [{},{}]", R::NAME, len, lo, hi)), ops)),
        (Some(_), false) => Err((Fail::new("new:degenerate-accepted", format!("SegExpTree::<{}>::new built a tree over only {} points [{},{}]", R::NAME, len, lo, hi)), ops)),
        (Some(mut ex), true) => {
            rep.counters.inc("domains_built");
            rep.case(mix(0xD1, mix(len as u64, lo as u64)) ^ crate::util::hash_bytes(R::NAME.as_bytes()));
            // coordinates: lo, hi, both sides of every expected bucket edge
            let mut xs: Vec<i64> = vec![lo, hi];
            let w = 1i128 << ex.shift;
            let edge_step = EDGE_STEP.load(std::sync::atomic::Ordering::Relaxed).max(1) as i128;
            for j in (1..32i128).filter(|j| j % edge_step == 0) {
                let e = lo as i128 + j * w;
                for x in [e - 1, e] {
                    if x >= lo as i128 && x <= hi as i128 {
                        xs.push(x as i64);
                    }
                }
            }
            if len <= 96 {
                xs.extend(lo..=hi);
            }
            xs.sort_unstable();
            xs.dedup();
            let mut prev_bucket = 0u32;
            for (i, &x) in xs.iter().enumerate() {
                let op = SOp::Ins { lo: x, hi: x, exp: 100 };
                ops.push(op);
                ctx::set(hist, ops.len() as u64);
                // check_dump verifies: place count == 32 + bucket(hi), place of the single copy ==
                // 31 + expected bucket (through the independent tiling), nothing out of range
                if let Err(f) = ex.step(&op, &mon, rep) {
                    return Err((f, ops));
                }
                let b = ex.bucket(x);
                if b >= 32 || b < prev_bucket || (i == 0 && b != 0) {
                    return Err((Fail::new("HARNESS:bucket", format!("reference bucket function is off: bucket({})={}", x, b)), ops));
                }
                prev_bucket = b;
                rep.counters.inc("coordinates_checked");
            }
            // behavioural cross-check without the hook: a point query at y finds exactly the points of its bucket
            let probe: Vec<i64> = if xs.len() <= 40 { xs.clone() } else { xs.iter().copied().step_by(xs.len() / 24).chain([lo, hi]).collect() };
            for y in probe {
                let op = SOp::Q { lo: y, hi: y, t: 0, take: -1 };
                ops.push(op);
                ctx::set(hist, ops.len() as u64);
                if let Err(f) = ex.step(&op, &mon, rep) {
                    return Err((f, ops));
                }
                rep.counters.inc("point_queries_checked");
            }
            let op = SOp::Q { lo, hi, t: 0, take: -1 };
            ops.push(op);
            if let Err(f) = ex.step(&op, &mon, rep) {
                return Err((f, ops));
            }
            // a cleared tree is still "a constructed tree": the same places must be backed by storage and
            // the same bucket function must hold when it is used again (twice, with the clock restarted)
            for round in 0..REUSE_ROUNDS.load(std::sync::atomic::Ordering::Relaxed) as i32 {
                let mut again: Vec<SOp> = vec![SOp::Clear];
                let picks: Vec<i64> = if xs.len() <= 8 { xs.clone() } else { xs.iter().copied().step_by(xs.len() / 5).chain([lo, hi]).collect() };
                for &x in &picks {
                    again.push(SOp::Ins { lo: x, hi: x, exp: 50 + round });
                }
                again.push(SOp::Ins { lo, hi, exp: 60 });
                again.push(SOp::Ins { lo, hi: xs[xs.len() / 2], exp: 60 });
                again.push(SOp::Ins { lo: xs[xs.len() / 2], hi, exp: 60 });
                again.push(SOp::Q { lo: hi, hi, t: 0, take: -1 });
                again.push(SOp::Q { lo, hi: lo, t: 1, take: -1 });
                again.push(SOp::Q { lo, hi, t: 2, take: -1 });
                for op in again {
                    ops.push(op);
                    ctx::set(hist, ops.len() as u64);
                    if let Err(f) = ex.step(&op, &mon, rep) {
                        return Err((f, ops));
                    }
                }
                rep.counters.inc("domains_reused_after_clear");
            }
            Ok(())
        }
    }
}

fn domain_case<R: Coord>(rep: &mut Report, lo: i64, hi: i64, hist: u64)
where
    i64: From<R>,
{
    if let Err((f, ops)) = check_domain::<R>(rep, lo, hi, hist) {
        handle_fail(rep, f, format!("coord={} lo={} hi={}", R::NAME, lo, hi), &ops);
    }
}

pub fn suite_seg_domains(cfg: &Cfg, rep: &mut Report) {
    let mut n = 0u64;
    let mut mine = |n: &mut u64| -> bool {
        *n += 1;
        (*n - 1) % cfg.nshards == cfg.shard
    };
    let max_len = cfg.num("grid_len", 80);
    let max_lo = cfg.num("grid_lo", 70);
    // `parts` selects the sections of the grid (Miri runs a thinned grid): g = small i32 grid,
    // s = i8/u8 corners, p = powers of two, w = 64-bit, x = 64-bit with more points than i64::MAX; kstep thins the exponents
    let parts = cfg.str_or("parts", "gspwx").to_string();
    let kstep = cfg.num("kstep", 1).max(1) as u32;
    EDGE_STEP.store(cfg.num("edge_step", 1).max(1) as u32, std::sync::atomic::Ordering::Relaxed);
    REUSE_ROUNDS.store(cfg.num("reuse_rounds", 2) as u32, std::sync::atomic::Ordering::Relaxed);
    // grid: all (lo, len) with len 1..=max_len, lo in -max_lo..=max_lo, as i32 domains
    for len in (1..=max_len).filter(|_| parts.contains('g')) {
        for lo in -max_lo..=max_lo {
            if mine(&mut n) {
                domain_case::<i32>(rep, lo, lo + len - 1, n);
            }
        }
    }
    // small types, exhaustively interesting corners
    for len in (1..=64i64).filter(|_| parts.contains('s')) {
        for lo in [-128i64, -64, -1, 0, 127 - len + 1] {
            if lo >= -128 && lo + len - 1 <= 127 && mine(&mut n) {
                domain_case::<i8>(rep, lo, lo + len - 1, n);
            }
        }
        for lo in [0i64, 1, 255 - len + 1] {
            if lo + len - 1 <= 255 && mine(&mut n) {
                domain_case::<u8>(rep, lo, lo + len - 1, n);
            }
        }
    }
    if parts.contains('s') && mine(&mut n) {
        domain_case::<i8>(rep, -128, 127, n);
    }
    if parts.contains('s') && mine(&mut n) {
        domain_case::<u8>(rep, 0, 255, n);
    }
    // powers of two and their neighbours at several origins, per coordinate type
    for k in (4..=32u32).filter(|k| parts.contains('p') && (k - 4) % kstep == 0) {
        for dl in [-1i64, 0, 1] {
            let len = (1i64 << k) + dl;
            if len < 1 {
                continue;
            }
            let origins: [i64; 5] = [0, -(len / 2), i32::MIN as i64, -1, i32::MAX as i64 - len + 1];
            for lo in origins {
                let hi = lo + len - 1;
                if lo >= i32::MIN as i64 && hi <= i32::MAX as i64 && mine(&mut n) {
                    domain_case::<i32>(rep, lo, hi, n);
                }
                if lo >= 0 && hi <= u32::MAX as i64 && mine(&mut n) {
                    domain_case::<u32>(rep, lo, hi, n);
                }
                if lo >= i16::MIN as i64 && hi <= i16::MAX as i64 && mine(&mut n) {
                    domain_case::<i16>(rep, lo, hi, n);
                }
                if lo >= 0 && hi <= u16::MAX as i64 && mine(&mut n) {
                    domain_case::<u16>(rep, lo, hi, n);
                }
            }
        }
    }
    if parts.contains('p') && mine(&mut n) {
        domain_case::<u32>(rep, 0, u32::MAX as i64, n);
    }
    if parts.contains('p') && mine(&mut n) {
        domain_case::<i32>(rep, i32::MIN as i64, i32::MAX as i64, n);
    }
    // 64-bit domains whose length fits in i64
    for k in [33u32, 40, 47, 48, 55, 62].into_iter().filter(|_| parts.contains('w')) {
        for dl in [-1i64, 0, 1] {
            let len = (1i64 << k) + dl;
            for lo in [0i64, -(len / 2), i64::MIN / 2, i64::MAX - len + 1] {
                if (lo as i128 + len as i128 - 1) <= i64::MAX as i128 && mine(&mut n) {
                    domain_case::<i64>(rep, lo, (lo as i128 + len as i128 - 1) as i64, n);
                }
            }
        }
    }
    if parts.contains('w') && mine(&mut n) {
        domain_case::<i64>(rep, 0, i64::MAX - 1, n);
    }
    // 64-bit domains with more points than i64::MAX, up to the whole range of the coordinate type
    // (2^63 - 1, 2^63, 2^63 + 1, ..., 2^64 - 1, 2^64 points)
    if parts.contains('x') {
        let mut wide: Vec<(i64, i64)> = vec![(i64::MIN, i64::MAX), (i64::MIN + 1, i64::MAX), (i64::MIN, i64::MAX - 1), (i64::MIN, -1), (i64::MIN, 0), (i64::MIN, 1), (-1, i64::MAX), (0, i64::MAX), (1, i64::MAX), (-2, i64::MAX)];
        for k in [40u32, 61, 62] {
            let r = 1i64 << k;
            wide.push((-(1i64 << 62) - r, (1i64 << 62) + (r - 1)));
            wide.push((i64::MIN + r, i64::MAX - r + 1));
            wide.push((i64::MIN, r));
            wide.push((-r, i64::MAX));
        }
        for (lo, hi) in wide {
            if mine(&mut n) {
                if (hi as i128 - lo as i128) >= i64::MAX as i128 {
                    rep.counters.inc("domains_with_more_points_than_i64_max");
                }
                domain_case::<i64>(rep, lo, hi, n);
            }
        }
    }
    rep.histories = rep.counters.get("domains_built") + rep.counters.get("domains_refused_as_required");
    rep.exhaustive = Some(parts == "gspwx" && kstep == 1 && cfg.num("edge_step", 1) <= 1);
    rep.sample(J::obj(vec![
        ("grid", J::s(format!("all i32 domains with len 1..={} and lo -{}..={}; i8/u8 corners; 2^k-1,2^k,2^k+1 for k=4..32 at 5 origins in i16/u16/i32/u32; i64 up to 2^62+1; 22 i64 domains of 2^63-1 .. 2^64 points", max_len, max_lo, max_lo))),
        ("per_domain", J::s("point insert at lo, hi, both sides of each of the 31 bucket edges (every coordinate when len <= 96): stored place must be 31 + ((x-lo) >> s); point queries; whole-domain query")),
    ]));
}

// ---------------------------------------------------------------------------------------------
// scale: tens of thousands of copies in one place list, mass expiry with survivors

pub fn seg_bulk_case(n: usize, pattern: usize, mon: &SMon, rep: &mut Report, hist: u64) -> Result<(), (Fail, Vec<SOp>, String)> {
    let mut ex = SegExec::<i32>::new(0, 31).expect("32-point domain");
    let ctor = ex.ctor();
    let quiet = SMon::default();
    let (a, b): (i64, i64) = match pattern {
        0 => (0, 31), // the root place
        1 => (5, 5),  // one leaf place
        2 => (8, 15), // one inner place
        _ => (3, 28), // eight places
    };
    let mut ops: Vec<SOp> = Vec::new();
    let mut run = |ex: &mut SegExec<i32>, op: SOp, m: &SMon, rep: &mut Report, ops: &mut Vec<SOp>| -> Result<(), (Fail, Vec<SOp>, String)> {
        // the bulk prefix is summarised in the witness by one `#bulk` line, not 70,000 lines
        if !(matches!(op, SOp::Ins { exp: 5, .. })) {
            ops.push(op);
        }
        ctx::set(hist, ops.len() as u64);
        ex.step(&op, m, rep).map(|_| ()).map_err(|f| (f, ops.clone(), ctor.clone()))
    };
    // survivors first, in the middle and last, so that swap_remove moves them around
    run(&mut ex, SOp::Ins { lo: a, hi: b, exp: 1000 }, &quiet, rep, &mut ops)?;
    for i in 0..n {
        run(&mut ex, SOp::Ins { lo: a, hi: b, exp: 5 }, &quiet, rep, &mut ops)?;
        if i == n / 2 {
            run(&mut ex, SOp::Ins { lo: a, hi: b, exp: 1000 }, &quiet, rep, &mut ops)?;
            run(&mut ex, SOp::Ins { lo: 0, hi: 31, exp: 1000 }, &quiet, rep, &mut ops)?;
        }
    }
    run(&mut ex, SOp::Ins { lo: a, hi: b, exp: 1000 }, &quiet, rep, &mut ops)?;
    rep.counters.max("max_copies_in_one_place_list", n as u64);
    // mass expiry with survivors, then every kind of later query must still find them
    run(&mut ex, SOp::Q { lo: 0, hi: 31, t: 10, take: -1 }, mon, rep, &mut ops)?;
    for x in 0..32 {
        run(&mut ex, SOp::Q { lo: x, hi: x, t: 10, take: -1 }, mon, rep, &mut ops)?;
    }
    run(&mut ex, SOp::Q { lo: a, hi: b, t: 11, take: -2 }, mon, rep, &mut ops)?;
    run(&mut ex, SOp::Ins { lo: a, hi: b, exp: 50 }, mon, rep, &mut ops)?;
    run(&mut ex, SOp::Q { lo: 0, hi: 31, t: 12, take: -5 }, mon, rep, &mut ops)?;
    run(&mut ex, SOp::Q { lo: a, hi: a, t: 12, take: 1 }, mon, rep, &mut ops)?;
    run(&mut ex, SOp::Q { lo: b, hi: b, t: 60, take: -1 }, mon, rep, &mut ops)?;
    run(&mut ex, SOp::Q { lo: 0, hi: 31, t: 60, take: -1 }, mon, rep, &mut ops)?;
    // a second fill that is cleared while the lists are still huge, then reuse from time 0
    for _ in 0..n {
        run(&mut ex, SOp::Ins { lo: a, hi: b, exp: 5 }, &quiet, rep, &mut ops)?;
    }
    run(&mut ex, SOp::Clear, mon, rep, &mut ops)?;
    run(&mut ex, SOp::Q { lo: 0, hi: 31, t: 0, take: -1 }, mon, rep, &mut ops)?;
    run(&mut ex, SOp::Ins { lo: a, hi: b, exp: 3 }, mon, rep, &mut ops)?;
    run(&mut ex, SOp::Q { lo: a, hi: a, t: 1, take: -1 }, mon, rep, &mut ops)?;
    run(&mut ex, SOp::Q { lo: 0, hi: 31, t: 4, take: -1 }, mon, rep, &mut ops)?;
    Ok(())
}

pub fn suite_seg_bulk(cfg: &Cfg, rep: &mut Report) {
    let mon = SMon::from_list(cfg.str_or("mon", "all"));
    let max_n = cfg.num("max_n", 140_000) as usize;
    let sizes: Vec<usize> = [300usize, 5_000, 70_000, 140_000, 300_000, 1_200_000, 6_000_000].into_iter().filter(|&x| x <= max_n).collect();
    let mut idx = 0u64;
    for &n in &sizes {
        for pattern in 0..4 {
            idx += 1;
            if (idx - 1) % cfg.nshards != cfg.shard {
                continue;
            }
            rep.histories += 1;
            rep.case(mix(n as u64, pattern as u64));
            if let Err((f, mut ops, ctor)) = seg_bulk_case(n, pattern, &mon, rep, idx) {
                ops.insert(1, SOp::Clear); // placeholder so that the witness is not mistaken for a complete history
                let mut v = viol(&f, ctor, &ops);
                v.ops = vec![format!("#seg-bulk n={} pattern={}", n, pattern)];
                v.family = "case".into();
                if f.sig.starts_with("HARNESS") {
                    rep.note(format!("harness contract breach: {} {}", f.sig, f.msg));
                } else {
                    rep.violation(v);
                }
            }
        }
    }
    rep.sample(J::obj(vec![
        ("sizes", J::Arr(sizes.iter().map(|x| J::UInt(*x as u64)).collect())),
        ("per_case", J::s("tree over [0,31]: 4 values expiring at 1000 and n values expiring at 5 over the same range (root / leaf / inner place / eight places), whole-domain query at t=10 (mass expiry with survivors), then 32 point queries, count(), an insert, collect(), a partial query and queries at t=60")),
    ]));
}
