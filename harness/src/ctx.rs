//! Crash context: where the worker currently is (history index, operation index, phase), kept in
//! a small shared file mapping so that the driver can read it after *any* kind of death of the
//! worker (abort, SIGSEGV, sanitizer exit, kill). Under Miri (no mmap) it is printed instead.
use std::sync::atomic::{AtomicPtr, AtomicU64, Ordering};

static PTR: AtomicPtr<u64> = AtomicPtr::new(std::ptr::null_mut());
static LAST_HIST: AtomicU64 = AtomicU64::new(u64::MAX);

#[cfg(not(miri))]
extern "C" {
    fn mmap(addr: *mut u8, len: usize, prot: i32, flags: i32, fd: i32, off: i64) -> *mut u8;
}

#[cfg(not(miri))]
pub fn init(path: &str) {
    use std::os::unix::io::AsRawFd;
    let f = match std::fs::OpenOptions::new().read(true).write(true).create(true).truncate(true).open(path) {
        Ok(f) => f,
        Err(_) => return,
    };
    if f.set_len(64).is_err() {
        return;
    }
    // PROT_READ|PROT_WRITE = 3, MAP_SHARED = 1
    let p = unsafe { mmap(std::ptr::null_mut(), 64, 3, 1, f.as_raw_fd(), 0) };
    if p as isize == -1 || p.is_null() {
        return;
    }
    let p = p as *mut u64;
    unsafe {
        p.write_volatile(u64::MAX);
        p.add(1).write_volatile(0);
        p.add(2).write_volatile(0);
    }
    PTR.store(p, Ordering::Relaxed);
    std::mem::forget(f);
}

#[cfg(miri)]
pub fn init(_path: &str) {}

/// record the position; cheap enough to call before every operation
#[inline]
pub fn set(hist: u64, op: u64) {
    let p = PTR.load(Ordering::Relaxed);
    if !p.is_null() {
        unsafe {
            p.write_volatile(hist);
            p.add(1).write_volatile(op);
        }
    } else if cfg!(miri) {
        if LAST_HIST.swap(hist, Ordering::Relaxed) != hist {
            eprintln!("CTX hist={}", hist);
        }
    }
}

/// extra word: phase within an operation (0 = library call, 1 = harness monitor code)
#[inline]
pub fn phase(x: u64) {
    let p = PTR.load(Ordering::Relaxed);
    if !p.is_null() {
        unsafe { p.add(2).write_volatile(x) }
    }
}
