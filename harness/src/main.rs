//! Worker process of the iTree runtime-monitoring framework.
//!
//!   harness <suite> [--seed S] [--shard i/n] [--budget N] [--tier quick|thorough] [--mon a,b,c]
//!                   [--ctx FILE] [--distinct-out FILE] [--only H] [--emit 1] [suite parameters]
//!   harness replay --family key|ord|seg --coll NAME --ctor "..." --ops-file FILE [--mon ...]
//!
//! The worker prints one line `REPORT {json}` on stdout. Exit code 0 = ran to completion (whatever
//! the monitors saw is in the report), anything else = the process died and the driver decides.
mod cb;
mod ctx;
mod key;
mod key_suites;
mod ord;
mod ord_suites;
mod report;
mod snap;
mod util;
mod seg;
mod seg_suites;
mod fault;
mod misc_suites;
mod alloc;
mod exp_types;
mod dup_held;

use report::{Cfg, Report};
use std::collections::BTreeMap;
use std::io::Write;

#[global_allocator]
static GLOBAL: alloc::Counting = alloc::Counting;

fn parse_args() -> Cfg {
    let args: Vec<String> = std::env::args().collect();
    if args.len() < 2 {
        eprintln!("usage: harness <suite> [--key value]...");
        std::process::exit(64);
    }
    let mut params = BTreeMap::new();
    let mut i = 2;
    while i < args.len() {
        let k = args[i].trim_start_matches("--").to_string();
        let v = args.get(i + 1).cloned().unwrap_or_default();
        params.insert(k, v);
        i += 2;
    }
    let num = |k: &str, d: u64| -> u64 { params.get(k).and_then(|s| s.parse().ok()).unwrap_or(d) };
    let (shard, nshards) = match params.get("shard") {
        Some(s) => {
            let p: Vec<&str> = s.split('/').collect();
            (p[0].parse().unwrap_or(0), p.get(1).and_then(|x| x.parse().ok()).unwrap_or(1))
        }
        None => (0, 1),
    };
    Cfg {
        suite: args[1].clone(),
        prop: params.get("prop").cloned().unwrap_or_else(|| "C00".into()),
        seed: num("seed", 1),
        shard,
        nshards,
        budget: num("budget", 100),
        thorough: params.get("tier").map(|s| s == "thorough").unwrap_or(false),
        only: params.get("only").and_then(|s| s.parse().ok()),
        emit: params.get("emit").map(|s| s == "1").unwrap_or(false),
        params,
    }
}

fn main() {
    let cfg = parse_args();
    cb::install_panic_hook();
    if let Some(p) = cfg.get("ctx") {
        ctx::init(p);
    }
    let start = std::time::Instant::now();
    let mut rep = Report::new();
    // fault-enumeration switches (any suite that enumerates injection points honours them)
    cb::clone_hook(cfg.flag("clonefault"));
    fault::set_only_kind(cfg.get("only_kind"));
    match cfg.suite.as_str() {
        "key-random" => key_suites::suite_key_random(&cfg, &mut rep),
        "key-closure" => key_suites::suite_key_closure(&cfg, &mut rep),
        "ord-random" => ord_suites::suite_ord_random(&cfg, &mut rep),
        "ord-closure" => ord_suites::suite_ord_closure(&cfg, &mut rep),
        "seg-pairs" => seg_suites::suite_seg_pairs(&cfg, &mut rep),
        "seg-random" => seg_suites::suite_seg_random(&cfg, &mut rep),
        "seg-domains" => seg_suites::suite_seg_domains(&cfg, &mut rep),
        "seg-bulk" => seg_suites::suite_seg_bulk(&cfg, &mut rep),
        "exp-types" => exp_types::suite_exp_types(&cfg, &mut rep),
        "dup-held" => dup_held::suite_dup_held(&cfg, &mut rep),
        "fault" => fault::suite_fault(&cfg, &mut rep),
        "clear-twin" => misc_suites::suite_clear_twin(&cfg, &mut rep),
        "export-size" => misc_suites::suite_export_size(&cfg, &mut rep),
        "big" => misc_suites::suite_big(&cfg, &mut rep),
        "sweep-line" => misc_suites::suite_sweep_line(&cfg, &mut rep),
        "replay" => misc_suites::replay(&cfg, &mut rep),
        other => {
            eprintln!("unknown suite {}", other);
            std::process::exit(64);
        }
    }
    if cfg.emit {
        return;
    }
    if cfg.flag("nojudge") {
        // crash-oracle runs (C10): only the process outcome counts, monitor verdicts are dropped
        rep.counters.add("monitor_verdicts_dropped", rep.violations.len() as u64);
        rep.violations.clear();
        rep.notes.clear();
    }
    let totals = cb::kind_totals();
    for (i, n) in totals.iter().enumerate() {
        if *n > 0 {
            rep.counters.add(&format!("callbacks_{}", cb::KIND_NAMES[i]), *n);
        }
    }
    if let Some(p) = cfg.get("distinct-out") {
        if let Ok(mut f) = std::fs::File::create(p) {
            let mut buf = Vec::with_capacity(rep.distinct.len() * 8);
            for h in &rep.distinct {
                buf.extend_from_slice(&h.to_le_bytes());
            }
            let _ = f.write_all(&buf);
        }
    }
    let j = rep.to_json(&cfg, start.elapsed().as_secs_f64());
    println!("REPORT {}", j.to_string());
}
