//! Ordered map / ordered set family: MapTree, MapList, SetTree, SetList behind one executor with a
//! BTreeMap reference model. Values carry a unique id and a heap payload so that an answer
//! identifies the entry it came from.
use crate::cb::{self, CbKind, MKey, MVal, SKey, SVal};
use crate::ctx;
use crate::report::{Fail, Obs, Report};
use crate::snap;
use crate::util::{mix, Rng};
use i_tree::map::list::MapList;
use i_tree::map::sort::MapCollection;
use i_tree::map::tree::MapTree;
use i_tree::set::list::SetList;
use i_tree::set::sort::SetCollection;
use i_tree::set::tree::SetTree;
use i_tree::verif::VerifSnapshot;
use i_tree::EMPTY_REF;
use std::cmp::Ordering;
use std::collections::BTreeMap;

/// snapshot payload: (key, id)
pub type OSnap = VerifSnapshot<(i32, u64)>;

/// what a dereferenced entry looks like: (key carried by the value, id, payload intact)
pub type Ent = (i32, u64, bool);

pub trait OrdColl: Sized {
    const NAME: &'static str;
    const IS_TREE: bool;
    const IS_SET: bool;
    /// false for plain-integer sets, where the value is the key and ids cannot be unique
    const UNIQUE_IDS: bool;
    fn make(hint: usize) -> Self;
    fn is_empty(&self) -> bool;
    fn insert(&mut self, k: i32, id: u64);
    fn delete(&mut self, k: i32);
    fn delete_by_index(&mut self, h: u32);
    fn get(&self, k: i32) -> Option<Ent>;
    fn read(&self, h: u32) -> Ent;
    fn write(&mut self, h: u32, id: u64);
    fn fil(&self, k: i32) -> u32;
    fn fil_by(&self, k: i32, mode: u8) -> u32;
    fn after(&self, h: u32) -> u32;
    fn before(&self, h: u32) -> u32;
    fn clear(&mut self);
    fn snap(&self) -> Option<OSnap>;
    fn dup(&self) -> Option<Self>;
}

#[inline]
fn cmp_mode(stored: i32, probe: i32, mode: u8) -> Ordering {
    match mode {
        0 => stored.cmp(&probe),
        1 => {
            if stored <= probe {
                Ordering::Less
            } else {
                Ordering::Greater
            }
        }
        _ => {
            if stored < probe {
                Ordering::Less
            } else {
                Ordering::Greater
            }
        }
    }
}

macro_rules! map_impl {
    ($ty:ty, $name:expr, $tree:expr) => {
        impl OrdColl for $ty {
            const NAME: &'static str = $name;
            const IS_TREE: bool = $tree;
            const IS_SET: bool = false;
            const UNIQUE_IDS: bool = true;
            fn make(hint: usize) -> Self {
                <$ty>::new(hint)
            }
            fn is_empty(&self) -> bool {
                MapCollection::is_empty(self)
            }
            fn insert(&mut self, k: i32, id: u64) {
                MapCollection::insert(self, MKey(k), MVal::new(k, id))
            }
            fn delete(&mut self, k: i32) {
                MapCollection::delete(self, MKey(k))
            }
            fn delete_by_index(&mut self, h: u32) {
                MapCollection::delete_by_index(self, h)
            }
            fn get(&self, k: i32) -> Option<Ent> {
                MapCollection::get_value(self, MKey(k)).map(|v| (v.key_copy, v.id, v.pay.intact() && v.pay.id() == v.id))
            }
            fn read(&self, h: u32) -> Ent {
                let v = MapCollection::value_by_index(self, h);
                (v.key_copy, v.id, v.pay.intact() && v.pay.id() == v.id)
            }
            fn write(&mut self, h: u32, id: u64) {
                let v = MapCollection::value_by_index_mut(self, h);
                let k = v.key_copy;
                *v = MVal::new(k, id);
            }
            fn fil(&self, k: i32) -> u32 {
                MapCollection::first_index_less(self, MKey(k))
            }
            fn fil_by(&self, k: i32, mode: u8) -> u32 {
                MapCollection::first_index_less_by(self, |s: MKey| {
                    cb::hit(CbKind::MapComparator, (s.0, 0, 0), (k, 0, 0));
                    cmp_mode(s.0, k, mode)
                })
            }
            fn after(&self, _h: u32) -> u32 {
                unreachable!()
            }
            fn before(&self, _h: u32) -> u32 {
                unreachable!()
            }
            fn clear(&mut self) {
                MapCollection::clear(self)
            }
            fn snap(&self) -> Option<OSnap> {
                map_snap(self)
            }
            fn dup(&self) -> Option<Self> {
                map_dup(self)
            }
        }
    };
}

trait MapHooks: Sized {
    fn hsnap(&self) -> Option<OSnap>;
    fn hdup(&self) -> Option<Self>;
}
impl MapHooks for MapTree<MKey, MVal> {
    fn hsnap(&self) -> Option<OSnap> {
        Some(self.verif_snapshot(|k, v| (k.0, v.id)))
    }
    fn hdup(&self) -> Option<Self> {
        Some(self.verif_clone())
    }
}
impl MapHooks for MapList<MKey, MVal> {
    fn hsnap(&self) -> Option<OSnap> {
        None
    }
    fn hdup(&self) -> Option<Self> {
        None
    }
}
fn map_snap<T: MapHooks>(t: &T) -> Option<OSnap> {
    t.hsnap()
}
fn map_dup<T: MapHooks>(t: &T) -> Option<T> {
    t.hdup()
}

map_impl!(MapTree<MKey, MVal>, "MapTree", true);
map_impl!(MapList<MKey, MVal>, "MapList", false);

impl OrdColl for SetTree<SKey, SVal> {
    const NAME: &'static str = "SetTree";
    const IS_TREE: bool = true;
    const IS_SET: bool = true;
    const UNIQUE_IDS: bool = true;
    fn make(hint: usize) -> Self {
        SetTree::new(hint)
    }
    fn is_empty(&self) -> bool {
        SetCollection::is_empty(self)
    }
    fn insert(&mut self, k: i32, id: u64) {
        SetCollection::insert(self, SVal::new(k, id))
    }
    fn delete(&mut self, k: i32) {
        SetCollection::delete(self, &SKey(k))
    }
    fn delete_by_index(&mut self, h: u32) {
        SetCollection::delete_by_index(self, h)
    }
    fn get(&self, k: i32) -> Option<Ent> {
        SetCollection::get_value(self, &SKey(k)).map(|v| (v.key.0, v.id, v.pay.intact() && v.pay.id() == v.id))
    }
    fn read(&self, h: u32) -> Ent {
        let v = SetCollection::value_by_index(self, h);
        (v.key.0, v.id, v.pay.intact() && v.pay.id() == v.id)
    }
    fn write(&mut self, h: u32, id: u64) {
        let v = SetCollection::value_by_index_mut(self, h);
        v.id = id;
        v.pay = cb::Payload::new(id);
    }
    fn fil(&self, k: i32) -> u32 {
        SetCollection::first_index_less(self, &SKey(k))
    }
    fn fil_by(&self, k: i32, mode: u8) -> u32 {
        SetCollection::first_index_less_by(self, |s: &SKey| {
            cb::hit(CbKind::SetComparator, (s.0, 0, 0), (k, 0, 0));
            cmp_mode(s.0, k, mode)
        })
    }
    fn after(&self, h: u32) -> u32 {
        SetCollection::index_after(self, h)
    }
    fn before(&self, h: u32) -> u32 {
        SetCollection::index_before(self, h)
    }
    fn clear(&mut self) {
        SetCollection::clear(self)
    }
    fn snap(&self) -> Option<OSnap> {
        Some(self.verif_snapshot(|v| (v.key.0, v.id)))
    }
    fn dup(&self) -> Option<Self> {
        Some(self.verif_clone())
    }
}

impl OrdColl for SetList<SVal> {
    const NAME: &'static str = "SetList";
    const IS_TREE: bool = false;
    const IS_SET: bool = true;
    const UNIQUE_IDS: bool = true;
    fn make(hint: usize) -> Self {
        SetList::new(hint)
    }
    fn is_empty(&self) -> bool {
        SetCollection::<SKey, SVal>::is_empty(self)
    }
    fn insert(&mut self, k: i32, id: u64) {
        SetCollection::<SKey, SVal>::insert(self, SVal::new(k, id))
    }
    fn delete(&mut self, k: i32) {
        SetCollection::<SKey, SVal>::delete(self, &SKey(k))
    }
    fn delete_by_index(&mut self, h: u32) {
        SetCollection::<SKey, SVal>::delete_by_index(self, h)
    }
    fn get(&self, k: i32) -> Option<Ent> {
        SetCollection::<SKey, SVal>::get_value(self, &SKey(k)).map(|v| (v.key.0, v.id, v.pay.intact() && v.pay.id() == v.id))
    }
    fn read(&self, h: u32) -> Ent {
        let v = SetCollection::<SKey, SVal>::value_by_index(self, h);
        (v.key.0, v.id, v.pay.intact() && v.pay.id() == v.id)
    }
    fn write(&mut self, h: u32, id: u64) {
        let v = SetCollection::<SKey, SVal>::value_by_index_mut(self, h);
        v.id = id;
        v.pay = cb::Payload::new(id);
    }
    fn fil(&self, k: i32) -> u32 {
        SetCollection::<SKey, SVal>::first_index_less(self, &SKey(k))
    }
    fn fil_by(&self, k: i32, mode: u8) -> u32 {
        SetCollection::<SKey, SVal>::first_index_less_by(self, |s: &SKey| {
            cb::hit(CbKind::SetComparator, (s.0, 0, 0), (k, 0, 0));
            cmp_mode(s.0, k, mode)
        })
    }
    fn after(&self, h: u32) -> u32 {
        SetCollection::<SKey, SVal>::index_after(self, h)
    }
    fn before(&self, h: u32) -> u32 {
        SetCollection::<SKey, SVal>::index_before(self, h)
    }
    fn clear(&mut self) {
        SetCollection::<SKey, SVal>::clear(self)
    }
    fn snap(&self) -> Option<OSnap> {
        None
    }
    fn dup(&self) -> Option<Self> {
        None
    }
}

/// plain integers: the value is its own key (as in the repository's tests)
impl OrdColl for SetTree<i32, i32> {
    const NAME: &'static str = "SetTree<i32,i32>";
    const IS_TREE: bool = true;
    const IS_SET: bool = true;
    const UNIQUE_IDS: bool = false;
    fn make(hint: usize) -> Self {
        SetTree::new(hint)
    }
    fn is_empty(&self) -> bool {
        SetCollection::is_empty(self)
    }
    fn insert(&mut self, k: i32, _id: u64) {
        SetCollection::insert(self, k)
    }
    fn delete(&mut self, k: i32) {
        SetCollection::delete(self, &k)
    }
    fn delete_by_index(&mut self, h: u32) {
        SetCollection::delete_by_index(self, h)
    }
    fn get(&self, k: i32) -> Option<Ent> {
        SetCollection::get_value(self, &k).map(|v| (*v, *v as i64 as u64, true))
    }
    fn read(&self, h: u32) -> Ent {
        let v = *SetCollection::value_by_index(self, h);
        (v, v as i64 as u64, true)
    }
    fn write(&mut self, h: u32, _id: u64) {
        let v = SetCollection::value_by_index_mut(self, h);
        let same = *v;
        *v = same;
    }
    fn fil(&self, k: i32) -> u32 {
        SetCollection::first_index_less(self, &k)
    }
    fn fil_by(&self, k: i32, mode: u8) -> u32 {
        SetCollection::first_index_less_by(self, |s: &i32| cmp_mode(*s, k, mode))
    }
    fn after(&self, h: u32) -> u32 {
        SetCollection::index_after(self, h)
    }
    fn before(&self, h: u32) -> u32 {
        SetCollection::index_before(self, h)
    }
    fn clear(&mut self) {
        SetCollection::clear(self)
    }
    fn snap(&self) -> Option<OSnap> {
        Some(self.verif_snapshot(|v| (*v, *v as i64 as u64)))
    }
    fn dup(&self) -> Option<Self> {
        Some(self.verif_clone())
    }
}

/// plain integer map
impl OrdColl for MapTree<i32, u64> {
    const NAME: &'static str = "MapTree<i32,u64>";
    const IS_TREE: bool = true;
    const IS_SET: bool = false;
    const UNIQUE_IDS: bool = true;
    fn make(hint: usize) -> Self {
        MapTree::new(hint)
    }
    fn is_empty(&self) -> bool {
        MapCollection::is_empty(self)
    }
    fn insert(&mut self, k: i32, id: u64) {
        // the id's upper half carries the key so that a handle can be dereferenced to a key
        MapCollection::insert(self, k, ((k as u32 as u64) << 32) | (id & 0xFFFF_FFFF))
    }
    fn delete(&mut self, k: i32) {
        MapCollection::delete(self, k)
    }
    fn delete_by_index(&mut self, h: u32) {
        MapCollection::delete_by_index(self, h)
    }
    fn get(&self, k: i32) -> Option<Ent> {
        MapCollection::get_value(self, k).map(|v| ((*v >> 32) as u32 as i32, *v & 0xFFFF_FFFF, true))
    }
    fn read(&self, h: u32) -> Ent {
        let v = *MapCollection::value_by_index(self, h);
        ((v >> 32) as u32 as i32, v & 0xFFFF_FFFF, true)
    }
    fn write(&mut self, h: u32, id: u64) {
        let v = MapCollection::value_by_index_mut(self, h);
        *v = (*v & 0xFFFF_FFFF_0000_0000) | (id & 0xFFFF_FFFF);
    }
    fn fil(&self, k: i32) -> u32 {
        MapCollection::first_index_less(self, k)
    }
    fn fil_by(&self, k: i32, mode: u8) -> u32 {
        MapCollection::first_index_less_by(self, |s: i32| cmp_mode(s, k, mode))
    }
    fn after(&self, _h: u32) -> u32 {
        unreachable!()
    }
    fn before(&self, _h: u32) -> u32 {
        unreachable!()
    }
    fn clear(&mut self) {
        MapCollection::clear(self)
    }
    fn snap(&self) -> Option<OSnap> {
        Some(self.verif_snapshot(|k, v| (*k, *v & 0xFFFF_FFFF)))
    }
    fn dup(&self) -> Option<Self> {
        Some(self.verif_clone())
    }
}

// ---------------------------------------------------------------------------------------------

#[derive(Clone, Copy, Debug, PartialEq, Eq)]
pub enum OOp {
    Ins { k: i32 },
    Del { k: i32 },
    /// delete through the handle returned by first_index_less(k)
    DelH { k: i32 },
    Get { k: i32 },
    Fil { k: i32 },
    FilB { k: i32, mode: u8 },
    /// read through the handle returned by first_index_less(k)
    Rdh { k: i32 },
    /// write a new value through the handle returned by first_index_less(k)
    Wrh { k: i32 },
    Empty,
    Clear,
    Aft { k: i32 },
    Bef { k: i32 },
    WalkF,
    WalkB,
    /// take and remember a handle for every stored key
    Hold,
    /// re-check every remembered handle
    Chk,
    /// look up every key of the universe, stored or not
    Sweep,
}

impl OOp {
    pub fn line(&self) -> String {
        match *self {
            OOp::Ins { k } => format!("ins {}", k),
            OOp::Del { k } => format!("del {}", k),
            OOp::DelH { k } => format!("delh {}", k),
            OOp::Get { k } => format!("get {}", k),
            OOp::Fil { k } => format!("fil {}", k),
            OOp::FilB { k, mode } => format!("filb {} {}", k, mode),
            OOp::Rdh { k } => format!("rdh {}", k),
            OOp::Wrh { k } => format!("wrh {}", k),
            OOp::Empty => "empty".into(),
            OOp::Clear => "clear".into(),
            OOp::Aft { k } => format!("aft {}", k),
            OOp::Bef { k } => format!("bef {}", k),
            OOp::WalkF => "walkf".into(),
            OOp::WalkB => "walkb".into(),
            OOp::Hold => "hold".into(),
            OOp::Chk => "chk".into(),
            OOp::Sweep => "sweep".into(),
        }
    }
    pub fn parse(s: &str) -> Option<OOp> {
        let p: Vec<&str> = s.split_whitespace().collect();
        let n = |i: usize| -> Option<i32> { p.get(i)?.parse().ok() };
        Some(match *p.first()? {
            "ins" => OOp::Ins { k: n(1)? },
            "del" => OOp::Del { k: n(1)? },
            "delh" => OOp::DelH { k: n(1)? },
            "get" => OOp::Get { k: n(1)? },
            "fil" => OOp::Fil { k: n(1)? },
            "filb" => OOp::FilB { k: n(1)?, mode: n(2)? as u8 },
            "rdh" => OOp::Rdh { k: n(1)? },
            "wrh" => OOp::Wrh { k: n(1)? },
            "empty" => OOp::Empty,
            "clear" => OOp::Clear,
            "aft" => OOp::Aft { k: n(1)? },
            "bef" => OOp::Bef { k: n(1)? },
            "walkf" => OOp::WalkF,
            "walkb" => OOp::WalkB,
            "hold" => OOp::Hold,
            "chk" => OOp::Chk,
            "sweep" => OOp::Sweep,
            _ => return None,
        })
    }
    fn code(&self) -> u64 {
        match *self {
            OOp::Ins { k } => mix(1, k as u64),
            OOp::Del { k } => mix(2, k as u64),
            OOp::DelH { k } => mix(3, k as u64),
            OOp::Get { k } => mix(4, k as u64),
            OOp::Fil { k } => mix(5, k as u64),
            OOp::FilB { k, mode } => mix(6 + mode as u64, k as u64),
            OOp::Rdh { k } => mix(10, k as u64),
            OOp::Wrh { k } => mix(11, k as u64),
            OOp::Empty => 12,
            OOp::Clear => 13,
            OOp::Aft { k } => mix(14, k as u64),
            OOp::Bef { k } => mix(15, k as u64),
            OOp::WalkF => 16,
            OOp::WalkB => 17,
            OOp::Hold => 18,
            OOp::Chk => 19,
            OOp::Sweep => 20,
        }
    }
}

#[derive(Clone, Copy, Debug, Default)]
pub struct OMon {
    pub lookup: bool,
    pub handle: bool,
    pub steps: bool,
    pub held: bool,
    pub structure: bool,
    pub slots: bool,
    pub removal_stats: bool,
}

impl OMon {
    pub fn from_list(list: &str) -> OMon {
        let has = |m: &str| list.split(',').any(|x| x == m || x == "all");
        OMon {
            lookup: has("lookup"),
            handle: has("handle"),
            steps: has("steps"),
            held: has("held"),
            structure: has("structure"),
            slots: has("slots"),
            removal_stats: has("removal_stats"),
        }
    }
}

#[derive(Clone)]
pub struct OBook {
    pub model: BTreeMap<i32, u64>,
    pub held: Vec<(i32, u64, u32)>,
    pub next_id: u64,
    pub peak: usize,
}

pub struct OrdExec<C: OrdColl> {
    pub sut: C,
    pub model: BTreeMap<i32, u64>,
    pub held: Vec<(i32, u64, u32)>,
    pub next_id: u64,
    pub hint: usize,
    /// keys lo..=hi are looked up by `Sweep`
    pub uni: (i32, i32),
    pub peak: usize,
    pub last_buf_len: usize,
    pub since_snap: usize,
}

impl<C: OrdColl> OrdExec<C> {
    pub fn new(hint: usize, uni: (i32, i32)) -> Self {
        OrdExec { sut: C::make(hint), model: BTreeMap::new(), held: Vec::new(), next_id: 0, hint, uni, peak: 0, last_buf_len: 0, since_snap: 0 }
    }
    pub fn dup(&self) -> Option<Self> {
        Some(OrdExec {
            sut: self.sut.dup()?,
            model: self.model.clone(),
            held: self.held.clone(),
            next_id: self.next_id,
            hint: self.hint,
            uni: self.uni,
            peak: self.peak,
            last_buf_len: self.last_buf_len,
            since_snap: self.since_snap,
        })
    }
    pub fn book(&self) -> OBook {
        OBook { model: self.model.clone(), held: self.held.clone(), next_id: self.next_id, peak: self.peak }
    }
    pub fn set_book(&mut self, b: OBook) {
        self.model = b.model;
        self.held = b.held;
        self.next_id = b.next_id;
        self.peak = b.peak;
    }
    fn id_for(&mut self, k: i32) -> u64 {
        if C::UNIQUE_IDS {
            let id = self.next_id;
            self.next_id += 1;
            id
        } else {
            k as i64 as u64
        }
    }
    fn model_hash(&self) -> u64 {
        let mut h = self.model.len() as u64;
        for (k, _) in self.model.iter().take(64) {
            h = mix(h, *k as u64);
        }
        h
    }
    /// reference answer of the predecessor query: greatest key <= probe (or < probe for the strict comparator)
    fn pred(&self, k: i32, strict: bool) -> Option<(i32, u64)> {
        if strict {
            self.model.range(..k).next_back().map(|(a, b)| (*a, *b))
        } else {
            self.model.range(..=k).next_back().map(|(a, b)| (*a, *b))
        }
    }

    fn describe(s: &OSnap) -> String {
        let mut out = format!("root={} free={:?} slots=[", s.root as i32, s.free);
        for (i, n) in s.slots.iter().enumerate().take(40) {
            out.push_str(&format!("{}:(p{} l{} r{} {} k{}) ", i, n.parent as i32, n.left as i32, n.right as i32, if n.red { "R" } else { "B" }, n.payload.0));
        }
        out.push(']');
        out
    }

    fn deref_check(&self, what: &str, h: u32, want: Option<(i32, u64)>) -> Result<(), Fail> {
        match want {
            None => {
                if h != EMPTY_REF {
                    // the handle is not dereferenced: it may not designate anything
                    return Err(Fail::new(
                        format!("{}:handle-instead-of-sentinel", what),
                        format!("{} returned handle {} instead of the empty sentinel: no stored key satisfies the bound ({} keys stored)", what, h, self.model.len()),
                    ));
                }
            }
            Some((k, id)) => {
                if h == EMPTY_REF {
                    return Err(Fail::new(format!("{}:sentinel-instead-of-handle", what), format!("{} returned the empty sentinel, reference entry is key {} id {}", what, k, id)));
                }
                let got = self.sut.read(h);
                if !got.2 {
                    return Err(Fail::new(format!("{}:payload-corrupt", what), format!("entry behind handle {} has a corrupt payload (key {} id {})", h, got.0, got.1)));
                }
                if got.0 != k || got.1 != id {
                    return Err(Fail::new(
                        format!("{}:wrong-entry", what),
                        format!("{} returned handle {} designating key {} id {}, reference entry is key {} id {}", what, h, got.0, got.1, k, id),
                    ));
                }
            }
        }
        Ok(())
    }

    /// compare lookups of the given keys with the model
    fn lookup_keys(&self, keys: impl Iterator<Item = i32>, rep: &mut Report, what: &str) -> Result<(), Fail> {
        for k in keys {
            let got = self.sut.get(k);
            let want = self.model.get(&k).copied();
            rep.evaluations += 1;
            match (got, want) {
                (None, None) => rep.counters.inc("lookup_compared_absent"),
                (Some(g), Some(w)) if g.0 == k && g.1 == w && g.2 => rep.counters.inc("lookup_compared_present"),
                (Some(g), Some(_)) if !g.2 => {
                    return Err(Fail::new(format!("{}:payload-corrupt", what), format!("get_value({}) returned an entry whose payload is corrupt (key {} id {})", k, g.0, g.1)));
                }
                (g, w) => {
                    let class = match (g, w) {
                        (None, Some(_)) => "missing",
                        (Some(_), None) => "present-but-deleted-or-never-inserted",
                        _ => "wrong-value",
                    };
                    return Err(Fail::new(
                        format!("{}:{}", what, class),
                        format!("get_value({}) returned {:?} (key,id,intact), reference id {:?}; reference keys {:?}", k, g, w, self.model.keys().take(40).collect::<Vec<_>>()),
                    ));
                }
            }
        }
        Ok(())
    }

    fn sweep(&self, rep: &mut Report, what: &str) -> Result<(), Fail> {
        if (self.uni.1 - self.uni.0) as usize <= 80 {
            self.lookup_keys(self.uni.0..=self.uni.1, rep, what)
        } else {
            // large universe: every stored key and both neighbours
            let keys: Vec<i32> = self.model.keys().flat_map(|&k| [k - 1, k, k + 1]).collect();
            self.lookup_keys(keys.into_iter(), rep, what)
        }
    }

    fn after_op(&mut self, mon: &OMon, rep: &mut Report, was_clear: bool) -> Result<(), Fail> {
        if self.model.len() > self.peak {
            self.peak = self.model.len();
        }
        if !(mon.structure || mon.slots) || !C::IS_TREE {
            return Ok(());
        }
        self.since_snap += 1;
        let due = self.last_buf_len <= 64 || self.since_snap >= self.last_buf_len / 32;
        if !due && !was_clear {
            return Ok(());
        }
        let s = match self.sut.snap() {
            Some(s) => s,
            None => return Ok(()),
        };
        self.since_snap = 0;
        self.last_buf_len = s.slots.len();
        rep.counters.inc("snapshots_checked");
        rep.evaluations += 1;
        if mon.structure {
            match snap::check_structure(&s, |p| p.0 as i64) {
                Ok(info) => {
                    rep.counters.max("max_height_seen", info.height as u64);
                    rep.counters.max("max_entries_seen", info.n as u64);
                    if info.root_red {
                        rep.counters.inc("snapshots_with_red_root");
                    }
                    if info.n != self.model.len() {
                        return Err(Fail::new("structure:count", format!("{} entries linked into the tree, reference holds {} | {}", info.n, self.model.len(), Self::describe(&s))));
                    }
                }
                Err(e) => return Err(Fail::new("structure", format!("{} | {}", e, Self::describe(&s)))),
            }
        }
        if mon.slots {
            if let Err(e) = snap::check_slots(&s) {
                return Err(Fail::new("slots", format!("{} | {}", e, Self::describe(&s))));
            }
            let bound = snap::slots_bound(self.peak, self.hint);
            rep.counters.max("max_buffer_len_seen", s.slots.len() as u64);
            if s.slots.len() > bound {
                return Err(Fail::new("slots-bound", format!("arena has {} slots, peak population {} (bound 8*(peak+1)+2*max(hint,8)+64 = {})", s.slots.len(), self.peak, bound)));
            }
            if was_clear && (s.root != EMPTY_REF || s.free.len() != s.slots.len().saturating_sub(1)) {
                return Err(Fail::new("slots-clear", format!("after clear: root {} and {} of {} slots free", s.root as i32, s.free.len(), s.slots.len().saturating_sub(1))));
            }
        }
        Ok(())
    }

    fn removal_stats(&self, k: i32, rep: &mut Report) {
        if let Some(s) = self.sut.snap() {
            // find the slot holding k by an independent descent over the snapshot
            let mut i = s.root;
            let mut g = 0;
            while i != EMPTY_REF && (i as usize) < s.slots.len() && g <= s.slots.len() {
                g += 1;
                let nd = &s.slots[i as usize];
                if nd.payload.0 == k {
                    let (name, code) = snap::classify_removal(&s, i);
                    rep.counters.inc(&format!("removal_{}", name));
                    rep.case(mix(0xC02, code as u64));
                    return;
                }
                i = if k < nd.payload.0 { nd.left } else { nd.right };
            }
        }
    }

    pub fn step(&mut self, op: &OOp, mon: &OMon, rep: &mut Report) -> Result<Obs, Fail> {
        let mut was_clear = false;
        let obs = match *op {
            OOp::Ins { k } => {
                if self.model.contains_key(&k) {
                    rep.counters.inc("skipped_inapplicable");
                    return Ok(Obs::Unit);
                }
                rep.counters.inc("op_insert");
                let id = self.id_for(k);
                ctx::phase(0);
                self.sut.insert(k, id);
                ctx::phase(1);
                self.model.insert(k, id);
                if mon.lookup {
                    self.lookup_keys([k - 1, k, k + 1].into_iter(), rep, "get-after-insert")?;
                    rep.case(mix(self.model_hash(), op.code()));
                }
                Obs::Unit
            }
            OOp::Del { k } => {
                let present = self.model.contains_key(&k);
                rep.counters.inc(if present { "op_delete_present" } else { "op_delete_absent" });
                if present && mon.removal_stats && C::IS_TREE && self.last_buf_len <= 4096 {
                    self.removal_stats(k, rep);
                }
                if present {
                    self.held.clear();
                }
                ctx::phase(0);
                self.sut.delete(k);
                ctx::phase(1);
                self.model.remove(&k);
                if mon.lookup {
                    rep.case(mix(self.model_hash(), op.code()));
                    if self.model.len() <= 40 {
                        self.sweep(rep, "get-after-delete")?;
                    } else {
                        let near: Vec<i32> = [k - 1, k, k + 1].into_iter().chain(self.model.range(k..).take(2).map(|e| *e.0)).chain(self.model.range(..k).rev().take(2).map(|e| *e.0)).collect();
                        self.lookup_keys(near.into_iter(), rep, "get-after-delete")?;
                    }
                }
                Obs::Unit
            }
            OOp::DelH { k } => {
                let want = self.pred(k, false);
                ctx::phase(0);
                let h = self.sut.fil(k);
                ctx::phase(1);
                if mon.handle {
                    rep.evaluations += 1;
                    self.deref_check("first_index_less", h, want)?;
                }
                match want {
                    None => {
                        rep.counters.inc("op_delete_by_handle_none");
                        Obs::Unit
                    }
                    Some((dk, _)) => {
                        if h == EMPTY_REF {
                            // handle monitor off and the collection disagrees: nothing to delete through
                            rep.counters.inc("skipped_inapplicable");
                            return Ok(Obs::Unit);
                        }
                        rep.counters.inc("op_delete_by_handle");
                        if mon.removal_stats && C::IS_TREE && self.last_buf_len <= 4096 {
                            self.removal_stats(dk, rep);
                        }
                        self.held.clear();
                        ctx::phase(0);
                        self.sut.delete_by_index(h);
                        ctx::phase(1);
                        self.model.remove(&dk);
                        if mon.handle || mon.lookup {
                            rep.case(mix(self.model_hash(), op.code()));
                            if self.model.len() <= 40 {
                                self.sweep(rep, "get-after-delete_by_index")?;
                            } else {
                                self.lookup_keys([dk - 1, dk, dk + 1].into_iter(), rep, "get-after-delete_by_index")?;
                            }
                        }
                        Obs::Unit
                    }
                }
            }
            OOp::Get { k } => {
                rep.counters.inc("op_get");
                ctx::phase(0);
                let got = self.sut.get(k);
                ctx::phase(1);
                if mon.lookup {
                    self.lookup_keys(std::iter::once(k), rep, "get")?;
                    if self.model.len() >= 2 {
                        rep.case(mix(self.model_hash(), op.code()));
                    }
                }
                Obs::Ent(got.map(|g| (g.0, g.1)))
            }
            OOp::Fil { k } | OOp::FilB { k, .. } | OOp::Rdh { k } => {
                let (h, strict, what) = {
                    ctx::phase(0);
                    let r = match *op {
                        OOp::FilB { mode, .. } => (self.sut.fil_by(k, mode), mode == 2, "first_index_less_by"),
                        _ => (self.sut.fil(k), false, "first_index_less"),
                    };
                    ctx::phase(1);
                    r
                };
                rep.counters.inc(match *op {
                    OOp::Fil { .. } => "op_first_index_less",
                    OOp::FilB { .. } => "op_first_index_less_by",
                    _ => "op_read_through_handle",
                });
                let want = self.pred(k, strict);
                if mon.handle {
                    rep.evaluations += 1;
                    rep.counters.inc(if want.is_some() { "handle_compared_entry" } else { "handle_compared_sentinel" });
                    if self.model.len() >= 2 {
                        rep.case(mix(self.model_hash(), op.code()));
                    }
                    self.deref_check(what, h, want)?;
                    if let OOp::FilB { mode, .. } = *op {
                        if mode != 2 {
                            // key-based and comparator-based forms must agree
                            let hk = self.sut.fil(k);
                            if hk != h {
                                return Err(Fail::new("first_index_less_by:disagrees-with-key-form", format!("first_index_less({}) = {} but first_index_less_by(mode {}) = {}", k, hk as i32, mode, h as i32)));
                            }
                        }
                    }
                }
                if h == EMPTY_REF || (mon.handle == false && want.is_none()) {
                    Obs::Ent(None)
                } else {
                    let e = self.sut.read(h);
                    Obs::Ent(Some((e.0, e.1)))
                }
            }
            OOp::Wrh { k } => {
                let want = self.pred(k, false);
                ctx::phase(0);
                let h = self.sut.fil(k);
                ctx::phase(1);
                if mon.handle {
                    rep.evaluations += 1;
                    self.deref_check("first_index_less", h, want)?;
                }
                if let (Some((wk, _)), true) = (want, h != EMPTY_REF) {
                    rep.counters.inc("op_write_through_handle");
                    let id = self.id_for(wk);
                    ctx::phase(0);
                    self.sut.write(h, id);
                    ctx::phase(1);
                    self.model.insert(wk, id);
                    for hd in self.held.iter_mut() {
                        if hd.0 == wk {
                            hd.1 = id;
                        }
                    }
                    if mon.handle {
                        rep.case(mix(self.model_hash(), op.code()));
                        // exactly that entry changed
                        if self.model.len() <= 40 {
                            self.sweep(rep, "get-after-write-through-handle")?;
                        } else {
                            self.lookup_keys([wk - 1, wk, wk + 1].into_iter(), rep, "get-after-write-through-handle")?;
                        }
                    }
                }
                Obs::Unit
            }
            OOp::Empty => {
                rep.counters.inc("op_is_empty");
                ctx::phase(0);
                let e = self.sut.is_empty();
                ctx::phase(1);
                if mon.lookup {
                    rep.evaluations += 1;
                    if e != self.model.is_empty() {
                        return Err(Fail::new("is_empty", format!("is_empty() = {} with {} keys present", e, self.model.len())));
                    }
                }
                Obs::Bool(e)
            }
            OOp::Clear => {
                rep.counters.inc("op_clear");
                self.held.clear();
                ctx::phase(0);
                self.sut.clear();
                ctx::phase(1);
                self.model.clear();
                was_clear = true;
                Obs::Unit
            }
            OOp::Aft { k } | OOp::Bef { k } => {
                if !C::IS_SET || !self.model.contains_key(&k) {
                    rep.counters.inc("skipped_inapplicable");
                    return Ok(Obs::Unit);
                }
                let fwd = matches!(op, OOp::Aft { .. });
                ctx::phase(0);
                let h = self.sut.fil(k);
                ctx::phase(1);
                if h == EMPTY_REF {
                    if mon.steps || mon.handle {
                        return Err(Fail::new("first_index_less:sentinel-instead-of-handle", format!("no handle for stored key {}", k)));
                    }
                    return Ok(Obs::Unit);
                }
                ctx::phase(0);
                let n = if fwd { self.sut.after(h) } else { self.sut.before(h) };
                ctx::phase(1);
                rep.counters.inc(if fwd { "op_index_after" } else { "op_index_before" });
                let want = if fwd { self.model.range(k + 1..).next().map(|(a, b)| (*a, *b)) } else { self.model.range(..k).next_back().map(|(a, b)| (*a, *b)) };
                if mon.steps {
                    rep.evaluations += 1;
                    rep.counters.inc(if want.is_none() { "step_compared_at_end" } else { "step_compared_inner" });
                    rep.case(mix(self.model_hash(), op.code()));
                    self.deref_check(if fwd { "index_after" } else { "index_before" }, n, want)?;
                }
                if n == EMPTY_REF {
                    Obs::Ent(None)
                } else if mon.steps || want.is_some() {
                    let e = self.sut.read(n);
                    Obs::Ent(Some((e.0, e.1)))
                } else {
                    Obs::Ent(None)
                }
            }
            OOp::WalkF | OOp::WalkB => {
                if !C::IS_SET || self.model.is_empty() {
                    rep.counters.inc("skipped_inapplicable");
                    return Ok(Obs::Unit);
                }
                let fwd = matches!(op, OOp::WalkF);
                let start = if fwd { *self.model.keys().next().unwrap() } else { *self.model.keys().next_back().unwrap() };
                ctx::phase(0);
                let mut h = self.sut.fil(start);
                ctx::phase(1);
                let mut seen: Vec<u64> = Vec::with_capacity(self.model.len());
                let want: Vec<u64> = if fwd { self.model.values().copied().collect() } else { self.model.values().rev().copied().collect() };
                let mut steps = 0usize;
                while h != EMPTY_REF {
                    if steps > self.model.len() + 1 {
                        if mon.steps {
                            return Err(Fail::new("walk:does-not-terminate", format!("walk from key {} still running after {} steps over {} entries", start, steps, self.model.len())));
                        }
                        break;
                    }
                    let e = self.sut.read(h);
                    seen.push(e.1);
                    ctx::phase(0);
                    h = if fwd { self.sut.after(h) } else { self.sut.before(h) };
                    ctx::phase(1);
                    steps += 1;
                }
                rep.counters.inc(if fwd { "op_walk_forward" } else { "op_walk_backward" });
                if mon.steps {
                    rep.evaluations += 1;
                    rep.counters.add("walk_steps", steps as u64);
                    if self.model.len() >= 2 {
                        rep.case(mix(self.model_hash(), op.code()));
                    }
                    if seen != want {
                        return Err(Fail::new(
                            if fwd { "walk-forward:wrong-sequence" } else { "walk-backward:wrong-sequence" },
                            format!("walk from key {} visited ids {:?}, reference order {:?}", start, seen.iter().take(40).collect::<Vec<_>>(), want.iter().take(40).collect::<Vec<_>>()),
                        ));
                    }
                }
                Obs::List(seen)
            }
            OOp::Hold | OOp::Chk if !C::IS_TREE => {
                // positions in a sorted vector shift with every insertion: C17 is about the trees
                rep.counters.inc("skipped_inapplicable_list_handles");
                return Ok(Obs::Unit);
            }
            OOp::Hold => {
                self.held.clear();
                let keys: Vec<(i32, u64)> = self.model.iter().map(|(a, b)| (*a, *b)).collect();
                for (k, id) in keys {
                    ctx::phase(0);
                    let h = self.sut.fil(k);
                    ctx::phase(1);
                    if mon.held {
                        self.deref_check("first_index_less", h, Some((k, id)))?;
                    }
                    if h != EMPTY_REF {
                        self.held.push((k, id, h));
                    }
                }
                rep.counters.add("handles_taken", self.held.len() as u64);
                Obs::Unit
            }
            OOp::Chk => {
                if mon.held {
                    for &(k, id, h) in &self.held {
                        rep.evaluations += 1;
                        rep.counters.inc("held_handles_rechecked");
                        let e = self.sut.read(h);
                        if e.0 != k || e.1 != id || !e.2 {
                            return Err(Fail::new(
                                "held-handle:designates-other-entry",
                                format!("handle {} taken for key {} id {} now designates key {} id {} (intact {})", h, k, id, e.0, e.1, e.2),
                            ));
                        }
                        let h2 = self.sut.fil(k);
                        if h2 != h {
                            return Err(Fail::new("held-handle:key-moved", format!("key {} was behind handle {}, first_index_less now returns {}", k, h, h2 as i32)));
                        }
                    }
                    if !self.held.is_empty() {
                        rep.case(mix(self.model_hash(), mix(self.held.len() as u64, op.code())));
                    }
                }
                Obs::Unit
            }
            OOp::Sweep => {
                rep.counters.inc("op_sweep");
                if mon.lookup {
                    self.sweep(rep, "get")?;
                    if self.model.len() >= 2 {
                        rep.case(mix(self.model_hash(), op.code()));
                    }
                }
                Obs::Unit
            }
        };
        self.after_op(mon, rep, was_clear)?;
        Ok(obs)
    }
}

// ---------------------------------------------------------------------------------------------
// random histories

#[derive(Clone, Debug)]
pub struct OProf {
    pub name: &'static str,
    pub u: i32,
    pub len: usize,
    /// ins del delh get fil filb rdh wrh empty clear aft bef walkf walkb hold chk sweep
    pub w: [u32; 17],
    pub order: u8,
    /// 0 random, 1 oldest, 2 median, 3 min, 4 max, 5 newest
    pub del_policy: u8,
    pub target_pop: usize,
}

pub fn profiles(thorough: bool) -> Vec<OProf> {
    let w_mixed = [26, 10, 6, 8, 6, 6, 4, 4, 1, 1, 5, 5, 1, 1, 2, 4, 1];
    let base = OProf { name: "", u: 10, len: 120, w: w_mixed, order: 0, del_policy: 0, target_pop: 0 };
    let big = if thorough { 4 } else { 1 };
    vec![
        OProf { name: "tiny-churn", u: 5, len: 90, ..base.clone() },
        OProf { name: "small-mixed", u: 12, len: 160, ..base.clone() },
        OProf { name: "ascending-delete-oldest", u: 40, len: 300, order: 1, del_policy: 1, ..base.clone() },
        OProf { name: "descending-delete-median", u: 40, len: 300, order: 2, del_policy: 2, ..base.clone() },
        OProf { name: "organ-pipe-delete-min", u: 40, len: 300, order: 3, del_policy: 3, ..base.clone() },
        OProf { name: "random-delete-max", u: 30, len: 250, del_policy: 4, ..base.clone() },
        OProf { name: "delete-newest", u: 30, len: 250, del_policy: 5, ..base.clone() },
        OProf { name: "clear-and-reuse", u: 16, len: 220, w: [30, 8, 6, 8, 6, 6, 4, 4, 2, 6, 5, 5, 1, 1, 2, 4, 1], ..base.clone() },
        OProf { name: "handles-held-across-inserts", u: 60, len: 300, w: [40, 2, 1, 4, 4, 4, 2, 4, 0, 0, 2, 2, 0, 0, 4, 12, 0], ..base.clone() },
        // regime changes instead of a stationary mix: fill beyond the hint, drain to (almost) nothing
        // with one policy, take handles for everything left, probe, refill with a handle check after
        // every insertion; twice or three times per history (sparse arenas after growth, see C17-h)
        OProf { name: "phased", u: 320, len: 700, ..base.clone() },
        OProf { name: "medium", u: 400, len: 2500 * big, w: [34, 12, 8, 8, 6, 6, 4, 4, 1, 0, 6, 6, 0, 0, 1, 2, 0], ..base.clone() },
        OProf { name: "marathon", u: 96, len: 3_000_000 * big, w: [30, 12, 8, 8, 6, 6, 4, 4, 1, 0, 5, 5, 0, 0, 1, 2, 0], target_pop: 48, ..base.clone() },
        OProf { name: "large-bounded-population", u: 6000, len: 12000 * big, w: [40, 22, 14, 6, 4, 4, 2, 2, 0, 0, 3, 3, 0, 0, 0, 0, 0], target_pop: 700, ..base.clone() },
    ]
}

pub const HINTS: [usize; 6] = [0, 1, 8, 9, 300, 33];

/// Keys are the even numbers 0,2,..,2u-2 (0 == K::default()); probes -1..=2u-1.
/// fill / drain / hold / probe / refill phases (profile "phased")
fn gen_phased(p: &OProf, is_set: bool, rng: &mut Rng) -> (usize, (i32, i32), Vec<OOp>) {
    let hint = *rng.pick(&HINTS);
    let u = p.u as usize;
    let mut ops: Vec<OOp> = Vec::with_capacity(p.len + 64);
    let mut present: Vec<i32> = Vec::new();
    let mut is_in: Vec<bool> = vec![false; u];
    let small = p.len < 120;
    let sizes: &[usize] = if small { &[6, 9, 12, 17] } else { &[9, 17, 33, 40, 64, 130, 300] };
    let pick_absent = |rng: &mut Rng, is_in: &Vec<bool>, order: u8| -> usize {
        match order {
            1 => (0..u).find(|&i| !is_in[i]).unwrap(),
            2 => (0..u).rev().find(|&i| !is_in[i]).unwrap(),
            _ => {
                let mut c = rng.below(u as u64) as usize;
                while is_in[c] {
                    c = (c + 1) % u;
                }
                c
            }
        }
    };
    while ops.len() < p.len {
        // fill
        let n = (*rng.pick(sizes)).min(u - 1);
        let order = rng.below(3) as u8;
        while present.len() < n {
            let i = pick_absent(rng, &is_in, order);
            is_in[i] = true;
            present.push(i as i32);
            ops.push(OOp::Ins { k: 2 * i as i32 });
            if rng.chance(1, 12) {
                ops.push(OOp::Get { k: 2 * *rng.pick(&present) + rng.range(-1, 1) as i32 });
            }
        }
        // drain
        let target = *rng.pick(&[0usize, 1, 2, 3, n / 20, n / 8, n / 5, n / 3, n / 2]);
        let policy = rng.below(5);
        while present.len() > target {
            let pos = match policy {
                0 => 0,
                1 => present.len() - 1,
                2 => present.iter().enumerate().min_by_key(|e| *e.1).unwrap().0,
                3 => present.iter().enumerate().max_by_key(|e| *e.1).unwrap().0,
                _ => rng.below(present.len() as u64) as usize,
            };
            let i = present.remove(pos);
            is_in[i as usize] = false;
            ops.push(if rng.chance(1, 3) { OOp::DelH { k: 2 * i } } else { OOp::Del { k: 2 * i } });
        }
        if rng.chance(1, 6) {
            ops.push(OOp::Clear);
            present.clear();
            for b in is_in.iter_mut() {
                *b = false;
            }
            // a cleared collection: a few entries first, so that there is something to hold
            for _ in 0..rng.range(0, 3) {
                let i = pick_absent(rng, &is_in, 0);
                is_in[i] = true;
                present.push(i as i32);
                ops.push(OOp::Ins { k: 2 * i as i32 });
            }
        }
        // hold what is left, probe it
        ops.push(OOp::Hold);
        ops.push(OOp::Empty);
        for _ in 0..rng.range(1, 5) {
            let k = if present.is_empty() { rng.range(-1, 2 * u as i64 - 1) as i32 } else { 2 * *rng.pick(&present) + rng.range(-1, 1) as i32 };
            ops.push(match rng.below(4) {
                0 => OOp::Get { k },
                1 => OOp::Fil { k },
                2 => OOp::FilB { k, mode: rng.below(3) as u8 },
                _ => OOp::Rdh { k },
            });
        }
        if is_set && !present.is_empty() {
            ops.push(OOp::WalkF);
            ops.push(OOp::Aft { k: 2 * *present.iter().max().unwrap() });
            ops.push(OOp::Bef { k: 2 * *present.iter().min().unwrap() });
        }
        ops.push(OOp::Chk);
        // refill: the held handles must survive every single insertion
        let k_more = (*rng.pick(&[1usize, 2, 5, n / 2 + 1, n + 3])).min(u - 1 - present.len());
        let order = rng.below(3) as u8;
        for j in 0..k_more {
            let i = pick_absent(rng, &is_in, order);
            is_in[i] = true;
            present.push(i as i32);
            ops.push(OOp::Ins { k: 2 * i as i32 });
            if j < 8 || j % 7 == 0 {
                ops.push(OOp::Chk);
            }
            if rng.chance(1, 10) {
                ops.push(OOp::Get { k: 2 * *rng.pick(&present) });
            }
        }
        ops.push(OOp::Chk);
        ops.push(OOp::Sweep);
        if is_set {
            ops.push(OOp::WalkB);
        }
    }
    ops.push(OOp::Sweep);
    ops.push(OOp::Chk);
    (hint, (-1, 2 * p.u - 1), ops)
}

pub fn gen_history(p: &OProf, is_set: bool, rng: &mut Rng) -> (usize, (i32, i32), Vec<OOp>) {
    if p.name == "phased" {
        return gen_phased(p, is_set, rng);
    }
    let hint = *rng.pick(&HINTS);
    let mut ops: Vec<OOp> = Vec::with_capacity(p.len);
    let mut present: Vec<i32> = Vec::new(); // insertion order (key indices)
    let mut is_in: Vec<bool> = vec![false; p.u as usize];
    let mut cursor = 0i32;
    let mut w = p.w;
    if !is_set {
        w[10] = 0;
        w[11] = 0;
        w[12] = 0;
        w[13] = 0;
    }
    let wsum: u32 = w.iter().sum();
    while ops.len() < p.len {
        let mut x = rng.below(wsum as u64) as u32;
        let mut kind = 0;
        for (i, ww) in w.iter().enumerate() {
            if x < *ww {
                kind = i;
                break;
            }
            x -= *ww;
        }
        // keep the population near the target, if one is set
        if p.target_pop > 0 {
            if present.len() > p.target_pop + p.target_pop / 4 && kind == 0 {
                kind = 1;
            } else if present.len() < p.target_pop / 2 && (kind == 1 || kind == 2) {
                kind = 0;
            }
        }
        let probe = |rng: &mut Rng, present: &Vec<i32>| -> i32 {
            if !present.is_empty() && rng.chance(2, 3) {
                2 * *rng.pick(present) + rng.range(-1, 1) as i32
            } else {
                rng.range(-1, 2 * p.u as i64 - 1) as i32
            }
        };
        match kind {
            0 => {
                if present.len() == p.u as usize {
                    ops.push(OOp::Get { k: probe(rng, &present) });
                    continue;
                }
                let i = match p.order {
                    1 => {
                        let mut c = cursor;
                        while is_in[c as usize] {
                            c = (c + 1) % p.u;
                        }
                        cursor = (c + 1) % p.u;
                        c
                    }
                    2 => {
                        let mut c = (p.u - 1 - cursor).rem_euclid(p.u);
                        while is_in[c as usize] {
                            c = (c - 1).rem_euclid(p.u);
                        }
                        cursor = (p.u - c).rem_euclid(p.u);
                        c
                    }
                    3 => {
                        let c = if cursor % 2 == 0 { (0..p.u).find(|&i| !is_in[i as usize]).unwrap() } else { (0..p.u).rev().find(|&i| !is_in[i as usize]).unwrap() };
                        cursor += 1;
                        c
                    }
                    _ => {
                        let mut c = rng.below(p.u as u64) as i32;
                        while is_in[c as usize] {
                            c = (c + 1) % p.u;
                        }
                        c
                    }
                };
                is_in[i as usize] = true;
                present.push(i);
                ops.push(OOp::Ins { k: 2 * i });
            }
            1 | 2 => {
                if present.is_empty() || (kind == 1 && rng.chance(1, 6)) {
                    // delete of an absent key (or on an empty collection) must change nothing
                    // an odd number (never a key) or a key of the universe that is not stored right now
                    let k = if rng.chance(1, 2) { 2 * rng.below(p.u as u64 + 1) as i32 - 1 } else { 2 * rng.below(p.u as u64) as i32 };
                    if k.rem_euclid(2) == 1 || !is_in[(k / 2) as usize] {
                        ops.push(if kind == 1 || present.is_empty() { OOp::Del { k } } else { OOp::DelH { k: -2 } });
                        continue;
                    }
                }
                if present.is_empty() {
                    continue;
                }
                let pos = match p.del_policy {
                    1 => 0,
                    2 => {
                        let mut s = present.clone();
                        s.sort();
                        let m = s[s.len() / 2];
                        present.iter().position(|&x| x == m).unwrap()
                    }
                    3 => present.iter().enumerate().min_by_key(|e| *e.1).unwrap().0,
                    4 => present.iter().enumerate().max_by_key(|e| *e.1).unwrap().0,
                    5 => present.len() - 1,
                    _ => rng.below(present.len() as u64) as usize,
                };
                let pos = if rng.chance(1, 5) { rng.below(present.len() as u64) as usize } else { pos };
                let i = present.remove(pos);
                is_in[i as usize] = false;
                if kind == 1 {
                    ops.push(OOp::Del { k: 2 * i });
                } else {
                    // through the handle of first_index_less(probe) where probe designates key i:
                    // the key itself, or the gap right above it when the next key is absent
                    let k = 2 * i;
                    let above_free = i + 1 >= p.u || !is_in[(i + 1) as usize];
                    ops.push(OOp::DelH { k: if above_free && rng.chance(1, 2) { k + 1 } else { k } });
                }
            }
            3 => ops.push(OOp::Get { k: probe(rng, &present) }),
            4 => ops.push(OOp::Fil { k: probe(rng, &present) }),
            5 => ops.push(OOp::FilB { k: probe(rng, &present), mode: rng.below(3) as u8 }),
            6 => ops.push(OOp::Rdh { k: probe(rng, &present) }),
            7 => ops.push(OOp::Wrh { k: probe(rng, &present) }),
            8 => ops.push(OOp::Empty),
            9 => {
                ops.push(OOp::Clear);
                present.clear();
                for b in is_in.iter_mut() {
                    *b = false;
                }
                if rng.chance(1, 2) {
                    ops.push(OOp::Empty);
                }
            }
            10 | 11 => {
                if present.is_empty() {
                    continue;
                }
                // bias to the extremes, where the step has to report the end
                let i = if rng.chance(1, 3) {
                    *present.iter().max().unwrap()
                } else if rng.chance(1, 2) {
                    *present.iter().min().unwrap()
                } else {
                    *rng.pick(&present)
                };
                ops.push(if kind == 10 { OOp::Aft { k: 2 * i } } else { OOp::Bef { k: 2 * i } });
            }
            12 => ops.push(OOp::WalkF),
            13 => ops.push(OOp::WalkB),
            14 => ops.push(OOp::Hold),
            15 => ops.push(OOp::Chk),
            _ => ops.push(OOp::Sweep),
        }
    }
    ops.push(OOp::Sweep);
    ops.push(OOp::Chk);
    (hint, (-1, 2 * p.u - 1), ops)
}

pub fn run_history<C: OrdColl>(hint: usize, uni: (i32, i32), ops: &[OOp], mon: &OMon, rep: &mut Report, hist: u64) -> Result<(), (Fail, usize)> {
    let base_live = cb::ledger_live();
    let base_bad = cb::ledger_bad_drops();
    {
        ctx::set(hist, 0); // a crash inside the constructor belongs to this history too
        let mut ex = OrdExec::<C>::new(hint, uni);
        for (i, op) in ops.iter().enumerate() {
            ctx::set(hist, i as u64);
            if let Err(f) = ex.step(op, mon, rep) {
                return Err((f, i));
            }
        }
    }
    // drop ledger: everything the collection owned has been dropped exactly once
    if mon.lookup {
        rep.counters.inc("ledger_checks");
        if cb::ledger_live() != base_live {
            return Err((Fail::new("ledger:leak-or-double-drop", format!("{} payload instances outlive the dropped collection", cb::ledger_live() - base_live)), ops.len() - 1));
        }
        if cb::ledger_bad_drops() != base_bad {
            return Err((Fail::new("ledger:corrupt-drop", "a payload was dropped with a corrupted heap cell".to_string()), ops.len() - 1));
        }
    }
    Ok(())
}
