//! Allocation monitor: a counting wrapper around the system allocator. While a region is open it
//! records the largest single request and the number of bytes requested.
use std::alloc::{GlobalAlloc, Layout, System};
use std::sync::atomic::{AtomicBool, AtomicUsize, Ordering};

pub struct Counting;

static TRACK: AtomicBool = AtomicBool::new(false);
static MAX_REQ: AtomicUsize = AtomicUsize::new(0);
static TOTAL: AtomicUsize = AtomicUsize::new(0);
static CALLS: AtomicUsize = AtomicUsize::new(0);

#[inline]
fn note(size: usize) {
    if TRACK.load(Ordering::Relaxed) {
        MAX_REQ.fetch_max(size, Ordering::Relaxed);
        TOTAL.fetch_add(size, Ordering::Relaxed);
        CALLS.fetch_add(1, Ordering::Relaxed);
    }
}

unsafe impl GlobalAlloc for Counting {
    unsafe fn alloc(&self, l: Layout) -> *mut u8 {
        note(l.size());
        System.alloc(l)
    }
    unsafe fn dealloc(&self, p: *mut u8, l: Layout) {
        System.dealloc(p, l)
    }
    unsafe fn alloc_zeroed(&self, l: Layout) -> *mut u8 {
        note(l.size());
        System.alloc_zeroed(l)
    }
    unsafe fn realloc(&self, p: *mut u8, l: Layout, new_size: usize) -> *mut u8 {
        note(new_size);
        System.realloc(p, l, new_size)
    }
}

pub fn region_start() {
    MAX_REQ.store(0, Ordering::Relaxed);
    TOTAL.store(0, Ordering::Relaxed);
    CALLS.store(0, Ordering::Relaxed);
    TRACK.store(true, Ordering::Relaxed);
}

/// (largest single request, bytes requested, number of requests) since `region_start`
pub fn region_end() -> (usize, usize, usize) {
    TRACK.store(false, Ordering::Relaxed);
    (MAX_REQ.load(Ordering::Relaxed), TOTAL.load(Ordering::Relaxed), CALLS.load(Ordering::Relaxed))
}
