//! Structure monitors over a hooked arena snapshot. Independent of the library's algorithms:
//! everything is recomputed from the raw links.
use i_tree::verif::VerifSnapshot;
use i_tree::EMPTY_REF;

#[derive(Clone, Copy, Debug, Default)]
pub struct SnapInfo {
    /// slots reachable from the root
    pub n: usize,
    pub height: u32,
    pub black_height: u32,
    pub buf_len: usize,
    pub free_len: usize,
    pub root_red: bool,
}

/// C02: binary search tree in strict key order, consistent parent/child links, no red-red edge,
/// equal black count on every root-to-missing-child path, sentinel slot linked nowhere, height bound.
pub fn check_structure<P>(s: &VerifSnapshot<P>, key: impl Fn(&P) -> i64) -> Result<SnapInfo, String> {
    let len = s.slots.len();
    let mut info = SnapInfo { buf_len: len, free_len: s.free.len(), ..Default::default() };
    if s.root == EMPTY_REF {
        return Ok(info);
    }
    if s.root as usize >= len {
        return Err(format!("root {} out of range (buffer {})", s.root, len));
    }
    if s.root == 0 {
        return Err("root is the sentinel slot 0".into());
    }
    if s.slots[s.root as usize].parent != EMPTY_REF {
        return Err(format!("root {} has parent link {}", s.root, s.slots[s.root as usize].parent));
    }
    info.root_red = s.slots[s.root as usize].red;
    let mut seen = vec![false; len];
    // (index, lo, hi, depth, blacks above incl. self handled on visit, parent_red)
    let mut stack: Vec<(u32, i64, i64, u32, u32, bool)> = vec![(s.root, i64::MIN, i64::MAX, 1, 0, false)];
    let mut leaf_black: Option<u32> = None;
    while let Some((i, lo, hi, depth, blacks, parent_red)) = stack.pop() {
        let iu = i as usize;
        if seen[iu] {
            return Err(format!("slot {} reachable twice (cycle or shared child)", i));
        }
        seen[iu] = true;
        info.n += 1;
        let nd = &s.slots[iu];
        let k = key(&nd.payload);
        if !(lo < k && k < hi) {
            return Err(format!("search order broken at slot {}: key {} not inside ({}, {})", i, k, lo, hi));
        }
        if nd.red && parent_red {
            return Err(format!("red slot {} (key {}) has a red parent", i, k));
        }
        let blacks = blacks + if nd.red { 0 } else { 1 };
        if depth > info.height {
            info.height = depth;
        }
        for (child, clo, chi, side) in [(nd.left, lo, k, "left"), (nd.right, k, hi, "right")] {
            if child == EMPTY_REF {
                match leaf_black {
                    None => leaf_black = Some(blacks),
                    Some(b) if b != blacks => {
                        return Err(format!(
                            "black count differs: a path ending below slot {} ({}) has {} blacks, another has {}",
                            i, side, blacks, b
                        ));
                    }
                    _ => {}
                }
                continue;
            }
            if child == 0 {
                return Err(format!("sentinel slot 0 is still linked as {} child of slot {}", side, i));
            }
            if child as usize >= len {
                return Err(format!("{} link of slot {} = {} out of range (buffer {})", side, i, child, len));
            }
            if s.slots[child as usize].parent != i {
                return Err(format!(
                    "slot {} is {} child of {} but its parent link is {}",
                    child, side, i, s.slots[child as usize].parent
                ));
            }
            stack.push((child, clo, chi, depth + 1, blacks, nd.red));
        }
    }
    info.black_height = leaf_black.unwrap_or(0);
    // h <= 2*log2(n+1)+1  <=>  2^(h-1) <= (n+1)^2
    let h = info.height;
    if h >= 1 {
        let ok = if h - 1 >= 126 { false } else { (1u128 << (h - 1)) <= ((info.n as u128 + 1) * (info.n as u128 + 1)) };
        if !ok {
            return Err(format!("height {} exceeds 2*log2(n+1)+1 for n = {}", h, info.n));
        }
    }
    Ok(info)
}

/// set of slots reachable from the root through child links (no other assumption; cycle safe)
pub fn reachable<P>(s: &VerifSnapshot<P>) -> Vec<bool> {
    let len = s.slots.len();
    let mut seen = vec![false; len];
    if s.root == EMPTY_REF || s.root as usize >= len {
        return seen;
    }
    let mut stack = vec![s.root];
    while let Some(i) = stack.pop() {
        let iu = i as usize;
        if iu >= len || seen[iu] {
            continue;
        }
        seen[iu] = true;
        let nd = &s.slots[iu];
        if nd.left != EMPTY_REF {
            stack.push(nd.left);
        }
        if nd.right != EMPTY_REF {
            stack.push(nd.right);
        }
    }
    seen
}

/// C11: {0} + reachable + free is a partition of 0..buffer.len().
pub fn check_slots<P>(s: &VerifSnapshot<P>) -> Result<(), String> {
    let len = s.slots.len();
    if len == 0 {
        // an arena that has not been allocated yet (lazily created by the first insertion) has no slot to
        // account for; it must then hold no tree and no free index either
        if s.root != EMPTY_REF || !s.free.is_empty() {
            return Err("arena has no slot at all, but a root or free indices are recorded".into());
        }
        return Ok(());
    }
    let live = reachable(s);
    let mut free = vec![false; len];
    for &f in &s.free {
        let fu = f as usize;
        if fu >= len {
            return Err(format!("free list holds index {} outside the buffer ({})", f, len));
        }
        if f == 0 {
            return Err("free list holds the sentinel slot 0".into());
        }
        if free[fu] {
            return Err(format!("slot {} is on the free list twice", f));
        }
        free[fu] = true;
    }
    if live[0] {
        return Err("sentinel slot 0 is linked into the tree".into());
    }
    for i in 1..len {
        match (live[i], free[i]) {
            (true, true) => return Err(format!("slot {} is both linked into the tree and on the free list", i)),
            (false, false) => return Err(format!("slot {} is lost: neither in the tree nor on the free list", i)),
            _ => {}
        }
    }
    Ok(())
}

/// C11's storage bound: "a constant multiple of the peak number of simultaneously stored entries plus
/// the initial capacity". The shipped pool stays below 3*(peak+1) + max(hint, 8); the monitor allows
/// any linear policy up to 8x the peak and 2x the hint (doubling, rounding the hint up to a power of
/// two, fixed chunks) so that a different but still linear growth policy is never flagged. A leak
/// is caught by the slot partition long before any bound; a superlinear policy passes any constant
/// in the large-tree jobs.
pub fn slots_bound(peak: usize, hint: usize) -> usize {
    8 * (peak + 1) + 2 * hint.max(8) + 64
}

/// Node markers in a canonical form (entry bytes appended by `enc` must stay below 0xF0).
pub const CANON_RED: u8 = 0xF1;
pub const CANON_BLACK: u8 = 0xF2;

/// Canonical form of the physical tree: pre-order with explicit missing-child markers; `enc`
/// appends the per-entry bytes (key, and whatever else distinguishes states). Slot numbers and
/// free-list order are abstracted away.
pub fn canonical<P>(s: &VerifSnapshot<P>, enc: impl Fn(&P, &mut Vec<u8>)) -> Vec<u8> {
    let mut out = Vec::with_capacity(64);
    let len = s.slots.len();
    if s.root == EMPTY_REF {
        return out;
    }
    let mut stack = vec![s.root];
    let mut guard = 0usize;
    while let Some(i) = stack.pop() {
        guard += 1;
        if guard > 4 * len + 8 {
            out.extend_from_slice(b"!cycle");
            break;
        }
        if i == EMPTY_REF {
            out.push(0xFF);
            continue;
        }
        if i as usize >= len {
            out.push(0xFE);
            continue;
        }
        let nd = &s.slots[i as usize];
        out.push(if nd.red { 0xF1 } else { 0xF2 });
        enc(&nd.payload, &mut out);
        stack.push(nd.right);
        stack.push(nd.left);
    }
    out
}

/// Static description of what a removal of slot `index` will have to do, computed from the
/// snapshot taken before the removal (coverage evidence for C02; never a verdict).
/// Returns (class name, full configuration code).
pub fn classify_removal<P>(s: &VerifSnapshot<P>, index: u32) -> (&'static str, u32) {
    let len = s.slots.len() as u32;
    let ok = |i: u32| i != EMPTY_REF && i < len;
    if !ok(index) {
        return ("invalid", 0);
    }
    let nd = &s.slots[index as usize];
    let two = nd.left != EMPTY_REF && nd.right != EMPTY_REF;
    let mut eff = index;
    if two {
        eff = nd.right;
        let mut guard = 0;
        while ok(eff) && s.slots[eff as usize].left != EMPTY_REF && guard < len {
            eff = s.slots[eff as usize].left;
            guard += 1;
        }
        if !ok(eff) {
            return ("invalid", 0);
        }
    }
    let e = &s.slots[eff as usize];
    let child = if e.left != EMPTY_REF { e.left } else { e.right };
    let has_child = child != EMPTY_REF;
    let is_root = e.parent == EMPTY_REF;
    let mut code: u32 = (two as u32) | ((has_child as u32) << 1) | ((e.red as u32) << 2) | ((is_root as u32) << 3);
    if is_root {
        return (if has_child { "root_with_one_child" } else { "last_entry" }, code);
    }
    if !has_child && e.red {
        return (if two { "two_children_red_leaf_successor" } else { "red_leaf" }, code);
    }
    // the node that becomes deficient is `eff`'s position (sentinel or its only child)
    let p = e.parent;
    if !ok(p) {
        return ("invalid", code);
    }
    let pn = &s.slots[p as usize];
    let is_left = pn.left == eff;
    let sib = if is_left { pn.right } else { pn.left };
    code |= (is_left as u32) << 4;
    code |= (pn.red as u32) << 5;
    if !ok(sib) {
        code |= 1 << 6;
        return (if has_child { "one_child_no_sibling" } else { "black_leaf_no_sibling" }, code);
    }
    let sn = &s.slots[sib as usize];
    let (near, far) = if is_left { (sn.left, sn.right) } else { (sn.right, sn.left) };
    let near_red = ok(near) && s.slots[near as usize].red;
    let far_red = ok(far) && s.slots[far as usize].red;
    code |= (sn.red as u32) << 7;
    code |= (near_red as u32) << 8;
    code |= (far_red as u32) << 9;
    code |= ((pn.parent == EMPTY_REF) as u32) << 10;
    let name = if sn.red {
        "red_sibling"
    } else if !near_red && !far_red {
        if pn.red {
            "black_sibling_black_nephews_red_parent"
        } else if pn.parent == EMPTY_REF {
            "black_sibling_black_nephews_black_parent_is_root"
        } else {
            "black_sibling_black_nephews_black_parent"
        }
    } else if far_red {
        "far_nephew_red"
    } else {
        "near_nephew_red_far_black"
    };
    (name, code)
}
