//! Segment tree family: SegExpTree behind an executor with a flat reference model and an
//! independently computed bucket function, tiling and visit set.
use crate::cb::SegVal;
use crate::ctx;
use crate::report::{Fail, Obs, Report};
use crate::util::mix;
use i_tree::seg::exp::{SegExpCollection, SegRange};
use i_tree::seg::tree::SegExpTree;

pub trait Coord: Copy + std::fmt::Debug
where
    i64: From<Self>,
{
    const NAME: &'static str;
    fn from_i64(x: i64) -> Self;
}
macro_rules! coord {
    ($t:ty) => {
        impl Coord for $t {
            const NAME: &'static str = stringify!($t);
            fn from_i64(x: i64) -> Self {
                x as $t
            }
        }
    };
}
coord!(i8);
coord!(u8);
coord!(i16);
coord!(u16);
coord!(i32);
coord!(u32);
coord!(i64);

/// log2 of the bucket width the property prescribes: the least s with 32 * 2^s >= len
pub fn expected_shift(len: u128) -> u32 {
    let mut s = 0u32;
    while (32u128 << s) < len {
        s += 1;
    }
    s
}

/// heap node index -> inclusive leaf (bucket) interval it covers, 63-node heap over 32 leaves
pub fn node_interval(i: usize) -> (u32, u32) {
    // depth d has 2^d nodes, first index 2^d - 1, each covering 32 >> d leaves
    let mut d = 0;
    while (1usize << (d + 1)) - 1 <= i {
        d += 1;
    }
    let pos = i - ((1usize << d) - 1);
    let w = 32u32 >> d;
    (pos as u32 * w, pos as u32 * w + w - 1)
}

/// canonical segment-tree decomposition of bucket range [a,b]: maximal nodes inside the range
pub fn tiling(a: u32, b: u32) -> u64 {
    fn rec(node: usize, l: u32, r: u32, a: u32, b: u32, out: &mut u64) {
        if b < l || r < a {
            return;
        }
        if a <= l && r <= b {
            *out |= 1u64 << node;
            return;
        }
        let m = (l + r) / 2;
        rec(2 * node + 1, l, m, a, b, out);
        rec(2 * node + 2, m + 1, r, a, b, out);
    }
    let mut out = 0u64;
    rec(0, 0, 31, a, b, &mut out);
    out
}

/// places a query over bucket range [c,d] has to look at: its leaves and all their ancestors
pub fn visit_set(c: u32, d: u32) -> u64 {
    let mut out = 0u64;
    for leaf in c..=d {
        let mut i = 31 + leaf as usize;
        loop {
            out |= 1u64 << i;
            if i == 0 {
                break;
            }
            i = (i - 1) / 2;
        }
    }
    out
}

#[derive(Clone, Copy, Debug, PartialEq, Eq)]
pub enum SOp {
    Ins { lo: i64, hi: i64, exp: i32 },
    /// take >= 0: stop after `take` items and drop the iterator. take < 0: consume fully, through
    /// -1 a `next()` loop, -2 `count()`, -3 `last()`, -4 `fold`, -5 `collect()`, -6 `nth(huge)`,
    /// -7 `for_each`, -8 `by_ref().take(1)` then `count()` of the rest
    Q { lo: i64, hi: i64, t: i32, take: i32 },
    Clear,
}

impl SOp {
    pub fn line(&self) -> String {
        match *self {
            SOp::Ins { lo, hi, exp } => format!("ins {} {} {}", lo, hi, exp),
            SOp::Q { lo, hi, t, take } => format!("q {} {} {} {}", lo, hi, t, take),
            SOp::Clear => "clear".into(),
        }
    }
    pub fn parse(s: &str) -> Option<SOp> {
        let p: Vec<&str> = s.split_whitespace().collect();
        let n = |i: usize| -> Option<i64> { p.get(i)?.parse().ok() };
        Some(match *p.first()? {
            "ins" => SOp::Ins { lo: n(1)?, hi: n(2)?, exp: n(3)? as i32 },
            "q" => SOp::Q { lo: n(1)?, hi: n(2)?, t: n(3)? as i32, take: n(4)? as i32 },
            "clear" => SOp::Clear,
            _ => return None,
        })
    }
}

#[derive(Clone, Copy, Debug, Default)]
pub struct SMon {
    /// C03: query answers
    pub query: bool,
    /// C16: physical removal of expired copies
    pub purge: bool,
    /// C15: tiling / copy count of every insert
    pub tiling: bool,
    /// C14: stored places are backed by storage, bucket function
    pub layout: bool,
}
impl SMon {
    pub fn from_list(list: &str) -> SMon {
        let has = |m: &str| list.split(',').any(|x| x == m || x == "all");
        SMon { query: has("query"), purge: has("purge"), tiling: has("tiling"), layout: has("layout") }
    }
}

#[derive(Clone, Copy, Debug)]
pub struct MSeg {
    pub id: u32,
    pub blo: u32,
    pub bhi: u32,
    pub exp: i32,
    pub places: u64,
}

#[derive(Clone)]
pub struct SBook {
    pub model: Vec<MSeg>,
    pub t_last: i32,
    pub next_id: u32,
}

pub struct SegExec<R>
where
    i64: From<R>,
{
    pub sut: SegExpTree<R, i32, SegVal>,
    pub lo: i64,
    pub hi: i64,
    pub shift: u32,
    pub model: Vec<MSeg>,
    pub t_last: i32,
    pub next_id: u32,
}

impl<R: Coord> SegExec<R>
where
    i64: From<R>,
{
    /// Ok(None): the library refused the domain (caller decides whether that is right)
    pub fn new(lo: i64, hi: i64) -> Option<Self> {
        let sut = SegExpTree::<R, i32, SegVal>::new(SegRange { min: R::from_i64(lo), max: R::from_i64(hi) })?;
        let len = (hi as i128 - lo as i128 + 1) as u128;
        Some(SegExec { sut, lo, hi, shift: expected_shift(len), model: Vec::new(), t_last: i32::MIN, next_id: 1 })
    }
    pub fn ctor(&self) -> String {
        format!("coord={} lo={} hi={}", R::NAME, self.lo, self.hi)
    }
    pub fn book(&self) -> SBook {
        SBook { model: self.model.clone(), t_last: self.t_last, next_id: self.next_id }
    }
    pub fn set_book(&mut self, b: SBook) {
        self.model = b.model;
        self.t_last = b.t_last;
        self.next_id = b.next_id;
    }
    #[inline]
    pub fn bucket(&self, x: i64) -> u32 {
        (((x as i128 - self.lo as i128) as u128) >> self.shift) as u32
    }

    /// C14/C15/C16 monitor over the hooked dump: structural facts that hold after every operation
    pub fn check_dump(&self, mon: &SMon, rep: &mut Report, after_full_domain_query: Option<i32>, visited: Option<(u64, i32)>) -> Result<(), Fail> {
        let d = self.sut.verif_dump();
        rep.counters.inc("dumps_checked");
        rep.counters.max("max_copies_stored", d.copies.len() as u64);
        let want_places = 32 + self.bucket(self.hi) as usize;
        if mon.layout {
            // C14 asks that every place an in-domain range can use is backed by storage: the last
            // reachable one is the leaf of hi's bucket. More lists than that (e.g. always 63) are fine.
            if d.places < want_places {
                return Err(Fail::new("layout:place-count", format!("tree has {} place lists, but places up to 31 + bucket(hi) = {} can be used", d.places, want_places - 1)));
            }
        }
        // per value: places where a copy is stored
        let mut stored: std::collections::HashMap<u32, u64> = std::collections::HashMap::new();
        for c in &d.copies {
            if c.place >= d.places || c.place >= 63 {
                if mon.layout || mon.tiling {
                    return Err(Fail::new("layout:place-out-of-range", format!("copy of value {} stored at place {} of {}", c.val.id, c.place, d.places)));
                }
                continue;
            }
            let e = stored.entry(c.val.id).or_insert(0);
            if *e & (1u64 << c.place) != 0 && mon.tiling {
                return Err(Fail::new("dump:duplicate-copy", format!("value {} is stored twice at place {}", c.val.id, c.place)));
            }
            *e |= 1u64 << c.place;
            if mon.tiling && !self.model.iter().any(|m| m.id == c.val.id) {
                return Err(Fail::new("dump:unknown-value", format!("stored copy of value {} that was cleared or never inserted", c.val.id)));
            }
        }
        if mon.tiling {
            // C15 as stated: the places of a value tile its bucket range exactly (every bucket of the
            // range under exactly one place, no bucket outside under any) and there are at most 8.
            // Any exact tiling passes, not only the canonical decomposition; the per-copy mask is an
            // internal detail and is not judged.
            for m in &self.model {
                let got = stored.get(&m.id).copied().unwrap_or(0);
                let live = self.t_last == i32::MIN || m.exp >= self.t_last;
                let mut cover = 0u32; // buckets under a stored place
                let mut bad: Option<String> = None;
                for p in 0..63usize {
                    if got & (1u64 << p) == 0 {
                        continue;
                    }
                    let (l, r) = node_interval(p);
                    let bits = if r - l == 31 { u32::MAX } else { ((1u32 << (r - l + 1)) - 1) << l };
                    if l < m.blo || r > m.bhi {
                        bad = Some(format!("place {} covers buckets [{},{}] outside the range", p, l, r));
                    } else if cover & bits != 0 {
                        bad = Some(format!("place {} (buckets [{},{}]) overlaps another place of the same value", p, l, r));
                    }
                    cover |= bits;
                }
                if let Some(b) = bad {
                    return Err(Fail::new("tiling:wrong-places", format!("value {} (buckets [{},{}], exp {}) is stored at places {:#x}: {} (t={})", m.id, m.blo, m.bhi, m.exp, got, b, self.t_last)));
                }
                if live {
                    // an unexpired value can never have lost a copy
                    let n = m.bhi - m.blo + 1;
                    let want = if n == 32 { u32::MAX } else { ((1u32 << n) - 1) << m.blo };
                    if cover != want {
                        return Err(Fail::new(
                            "tiling:not-a-cover",
                            format!("value {} (buckets [{},{}], exp {}) is stored at places {:#x}, which cover the bucket set {:#x}, not {:#x} (t={})", m.id, m.blo, m.bhi, m.exp, got, cover, want, self.t_last),
                        ));
                    }
                    if got.count_ones() > 8 {
                        return Err(Fail::new("tiling:more-than-8-copies", format!("value {} is stored {} times", m.id, got.count_ones())));
                    }
                    if got == m.places {
                        rep.counters.inc("tilings_equal_to_canonical_decomposition");
                    } else {
                        rep.counters.inc("tilings_exact_but_not_canonical");
                    }
                }
            }
        }
        if mon.purge {
            if let Some(t) = after_full_domain_query {
                rep.evaluations += 1;
                let mut want = 0usize;
                for m in &self.model {
                    if m.exp >= t {
                        want += m.places.count_ones() as usize;
                    }
                }
                for c in &d.copies {
                    if c.val.exp < t {
                        return Err(Fail::new(
                            "purge:expired-copy-kept",
                            format!("after a fully consumed whole-domain query at t={} a copy of value {} (exp {}) is still stored at place {}", t, c.val.id, c.val.exp, c.place),
                        ));
                    }
                }
                // (how many copies the unexpired values keep is C15's / C03's business, not judged here)
                if d.copies.len() == want {
                    rep.counters.inc("purge_left_exactly_the_canonical_copies_of_unexpired_values");
                }
                rep.counters.inc("purge_checked_after_whole_domain_query");
            }
            if let Some((vis, t)) = visited {
                rep.evaluations += 1;
                for c in &d.copies {
                    if vis & (1u64 << c.place) != 0 && c.val.exp < t {
                        return Err(Fail::new(
                            "purge:expired-copy-kept-in-scanned-list",
                            format!("after a fully consumed query at t={} a copy of value {} (exp {}) is still stored at scanned place {}", t, c.val.id, c.val.exp, c.place),
                        ));
                    }
                }
                rep.counters.inc("purge_checked_after_partial_domain_query");
            }
        }
        Ok(())
    }

    pub fn step(&mut self, op: &SOp, mon: &SMon, rep: &mut Report) -> Result<Obs, Fail> {
        let use_dump = mon.purge || mon.tiling || mon.layout;
        match *op {
            SOp::Ins { lo, hi, exp } => {
                if lo < self.lo || hi > self.hi || lo > hi {
                    return Err(Fail::new("HARNESS:range", "generator produced an out-of-domain range"));
                }
                let id = self.next_id;
                self.next_id += 1;
                let (blo, bhi) = (self.bucket(lo), self.bucket(hi));
                rep.counters.inc("op_insert");
                if self.t_last != i32::MIN && exp < self.t_last {
                    rep.counters.inc("op_insert_already_expired");
                }
                ctx::phase(0);
                self.sut.insert_by_range(SegRange { min: R::from_i64(lo), max: R::from_i64(hi) }, SegVal { id, exp });
                ctx::phase(1);
                self.model.push(MSeg { id, blo, bhi, exp, places: tiling(blo, bhi) });
                if use_dump && (self.model.len() <= 64 || id % 16 == 0) {
                    if mon.tiling {
                        rep.evaluations += 1;
                        rep.case(mix(0xC15, mix(blo as u64, bhi as u64)));
                    }
                    self.check_dump(mon, rep, None, None)?;
                }
                Ok(Obs::Unit)
            }
            SOp::Q { lo, hi, t, take } => {
                if lo < self.lo || hi > self.hi || lo > hi {
                    return Err(Fail::new("HARNESS:range", "generator produced an out-of-domain range"));
                }
                if self.t_last != i32::MIN && t < self.t_last {
                    return Err(Fail::new("HARNESS:time", "generator moved time backwards"));
                }
                self.t_last = t;
                let (c, d) = (self.bucket(lo), self.bucket(hi));
                rep.counters.inc(if take < 0 { "op_query_full" } else { "op_query_partial" });
                let mut got: Vec<u32> = Vec::new();
                ctx::phase(0);
                // for the draining adaptors that do not hand the values out: how many there were /
                // which one came last
                let mut counted: Option<usize> = None;
                let mut last_seen: Option<Option<u32>> = None;
                let mut polled_after_end: Option<u32> = None;
                {
                    let mut it = self.sut.iter_by_range(SegRange { min: R::from_i64(lo), max: R::from_i64(hi) }, t);
                    match take {
                        -2 => counted = Some(it.count()),
                        -3 => last_seen = Some(it.last().map(|v| v.id)),
                        -4 => got = it.fold(Vec::new(), |mut acc, v| {
                            acc.push(v.id);
                            acc
                        }),
                        -5 => got = it.map(|v| v.id).collect::<Vec<u32>>(),
                        -6 => last_seen = Some(it.nth(usize::MAX / 2).map(|v| v.id)),
                        -7 => it.for_each(|v| got.push(v.id)),
                        -8 => {
                            got.extend(it.by_ref().take(1).map(|v| v.id));
                            counted = Some(got.len() + it.count());
                        }
                        _ => {
                            let mut n = 0;
                            let mut exhausted = false;
                            while take < 0 || n < take {
                                match it.next() {
                                    Some(v) => got.push(v.id),
                                    None => {
                                        exhausted = true;
                                        break;
                                    }
                                }
                                n += 1;
                                if got.len() > 4 * self.model.len() + 8 {
                                    break;
                                }
                            }
                            if exhausted {
                                // a caller that polls again (`by_ref()` loops do) must not be handed
                                // anything a second time
                                for _ in 0..2 {
                                    if let Some(v) = it.next() {
                                        polled_after_end = Some(v.id);
                                    }
                                }
                            }
                        }
                    }
                }
                ctx::phase(1);
                if take < -1 {
                    rep.counters.inc("op_query_full_through_adaptor");
                }
                if self.model.iter().any(|m| m.exp == t && m.blo <= d && c <= m.bhi) {
                    rep.counters.inc("query_with_value_expiring_exactly_at_t");
                }
                if self.model.iter().any(|m| m.exp < t && m.blo <= d && c <= m.bhi) {
                    rep.counters.inc("query_over_expired_value");
                }
                if mon.query {
                    if let Some(id) = polled_after_end {
                        return Err(Fail::new("query:yields-after-exhaustion", format!("query buckets [{},{}] at t={}: the iterator returned None and then yielded value {} when polled again", c, d, t, id)));
                    }
                }
                if mon.query {
                    rep.evaluations += 1;
                    let mut want: Vec<u32> = self.model.iter().filter(|m| m.exp >= t && m.blo <= d && c <= m.bhi).map(|m| m.id).collect();
                    want.sort_unstable();
                    let mut g = got.clone();
                    g.sort_unstable();
                    let dup = g.windows(2).any(|w| w[0] == w[1]);
                    if want.len() >= 2 {
                        rep.counters.inc("query_with_2plus_expected");
                    }
                    let mut hsh = mix(c as u64, d as u64);
                    for m in self.model.iter().filter(|m| m.exp >= t).take(24) {
                        hsh = mix(hsh, mix(m.blo as u64, mix(m.bhi as u64, (m.exp == t) as u64)));
                    }
                    if !want.is_empty() {
                        rep.case(hsh);
                    }
                    let describe = |ids: &[u32]| -> String {
                        ids.iter()
                            .take(12)
                            .map(|id| match self.model.iter().find(|m| m.id == *id) {
                                Some(m) => format!("{}:[{},{}]exp{}", id, m.blo, m.bhi, m.exp),
                                None => format!("{}:?", id),
                            })
                            .collect::<Vec<_>>()
                            .join(" ")
                    };
                    if dup {
                        return Err(Fail::new("query:duplicate", format!("query buckets [{},{}] at t={} yielded a value twice: {}", c, d, t, describe(&g))));
                    }
                    if let Some(n) = counted {
                        if n != want.len() {
                            return Err(Fail::new("query:count", format!("query buckets [{},{}] at t={} drained through count(): {} values, reference {}", c, d, t, n, want.len())));
                        }
                    } else if let Some(l) = last_seen {
                        let ok = match l {
                            None => want.is_empty() || take == -6,
                            Some(id) => want.contains(&id) && take == -3,
                        };
                        if !ok {
                            return Err(Fail::new("query:last", format!("query buckets [{},{}] at t={} drained through last()/nth(): got {:?}, reference answer has {} values", c, d, t, l, want.len())));
                        }
                    } else if take < 0 {
                        if g != want {
                            let extra: Vec<u32> = g.iter().copied().filter(|x| !want.contains(x)).collect();
                            let missing: Vec<u32> = want.iter().copied().filter(|x| !g.contains(x)).collect();
                            let class = if !extra.is_empty() {
                                if extra.iter().any(|id| self.model.iter().any(|m| m.id == *id && m.exp < t)) {
                                    "expired-yielded"
                                } else {
                                    "non-overlapping-yielded"
                                }
                            } else {
                                "missing"
                            };
                            return Err(Fail::new(
                                format!("query:{}", class),
                                format!("query buckets [{},{}] at t={}: extra {{{}}} missing {{{}}}", c, d, t, describe(&extra), describe(&missing)),
                            ));
                        }
                    } else {
                        rep.counters.inc("partial_queries_compared");
                        if let Some(x) = g.iter().find(|x| !want.contains(x)) {
                            return Err(Fail::new("query:partial-yielded-outside-answer", format!("partially consumed query buckets [{},{}] at t={} yielded {}", c, d, t, describe(&[*x]))));
                        }
                        if (g.len() as i32) < take && g.len() < want.len() {
                            return Err(Fail::new("query:missing", format!("query buckets [{},{}] at t={} ended after {} of {} values", c, d, t, g.len(), want.len())));
                        }
                    }
                }
                if use_dump && (self.model.len() <= 64 || self.next_id % 4 == 0) {
                    let full = take < 0 || (got.len() as i32) < take;
                    let whole = c == 0 && d == self.bucket(self.hi);
                    self.check_dump(mon, rep, if full && whole { Some(t) } else { None }, if full && !whole { Some((visit_set(c, d), t)) } else { None })?;
                }
                // expired values can never come back: keep the model small
                if self.model.len() > 32 {
                    let d = self.sut.verif_dump();
                    let present: std::collections::HashSet<u32> = d.copies.iter().map(|c| c.val.id).collect();
                    self.model.retain(|m| m.exp >= t || present.contains(&m.id));
                }
                Ok(Obs::List(got.iter().map(|x| *x as u64).collect()))
            }
            SOp::Clear => {
                rep.counters.inc("op_clear");
                ctx::phase(0);
                self.sut.clear();
                ctx::phase(1);
                self.model.clear();
                self.t_last = i32::MIN;
                if use_dump {
                    // what a cleared tree still holds physically is judged by no segment-tree property as
                    // long as it is never yielded (C12 / C03 judge the answers); it is only counted. The
                    // place lists, however, must still back every usable place (C14) after a clear.
                    let d = self.sut.verif_dump();
                    if !d.copies.is_empty() {
                        rep.counters.inc("clears_that_left_copies_physically_stored");
                    }
                    self.check_dump(mon, rep, None, None)?;
                }
                Ok(Obs::Unit)
            }
        }
    }
}
