//! clear-vs-fresh-twin (C12), export size (C19), large trees (C02 height, C11 storage), the
//! sweep-line scenario, and replay of recorded witnesses.
use crate::alloc;
use crate::cb::{self, KKey, MKey, MVal, SKey, SVal};
use crate::ctx;
use crate::fault;
use crate::key::{self, KMon, KOp, KeyColl, KeyExec};
use crate::key_suites::{self, KList, KTree};
use crate::ord::{self, OMon, OOp, OrdExec};
use crate::ord_suites::{self, MList, MTree, SList, STree};
use crate::report::{Cfg, Fail, Obs, Report, Viol};
use crate::seg::{SMon, SOp, SegExec};
use crate::seg_suites;
use crate::snap;
use crate::util::{mix, Rng, J};
use i_tree::key::array::IntoArray;
use i_tree::key::exp::KeyExpCollection;
use i_tree::key::list::KeyExpList;
use i_tree::key::tree::KeyExpTree;
use i_tree::map::sort::MapCollection;
use i_tree::map::tree::MapTree;
use i_tree::set::sort::SetCollection;
use i_tree::set::tree::SetTree;

// ---------------------------------------------------------------------------------------------
// C12: clear() versus a fresh twin

fn obs_eq(a: &Obs, b: &Obs, unordered: bool) -> bool {
    match (a, b) {
        (Obs::List(x), Obs::List(y)) if unordered => {
            let (mut x, mut y) = (x.clone(), y.clone());
            x.sort_unstable();
            y.sort_unstable();
            x == y
        }
        _ => a == b,
    }
}

/// ids differ between the cleared instance and its twin only by a constant offset (both count up
/// from their own counters); normalise observations to "n-th value inserted since the clear".
fn norm(o: Obs, base: u64) -> Obs {
    let f = |id: u64| if id == key::DEFAULT_ID || id < base { id } else { id - base };
    match o {
        Obs::Val(Some(id)) => Obs::Val(Some(f(id))),
        Obs::Ent(Some((k, id))) => Obs::Ent(Some((k, f(id)))),
        Obs::List(v) => Obs::List(v.into_iter().map(f).collect()),
        x => x,
    }
}

fn twin_viol(coll: &str, family: &str, sig: String, msg: String, ctor: String, lines: Vec<String>) -> Viol {
    Viol { sig: format!("{}:{}", coll, sig), msg, family: family.into(), coll: coll.into(), ctor, ops: lines, confirmed: true }
}

fn twin_key<C: KeyColl>(rep: &mut Report, hint_a: usize, hint_b: usize, prefix: &[KOp], suffix: &[KOp], hist: u64) {
    // C12 is an observational property: the verdict comes from the answers (reference model and
    // fresh twin); the arena itself is C02's / C11's business
    let mon = KMon { pred: true, get: true, export: true, empty: true, structure: false, slots: false, cblive: false, phys: false, capacity: false };
    let none = KMon::none();
    let mut lines: Vec<String> = prefix.iter().map(|o| o.line()).collect();
    let ctor = format!("hint={} twin_hint={}", hint_a, hint_b);
    ctx::set(hist, 0);
    let mut a = KeyExec::<C>::new(hint_a);
    let mut scratch = Report::new();
    for (i, op) in prefix.iter().enumerate() {
        ctx::set(hist, i as u64);
        if matches!(op, KOp::Export { .. }) {
            continue;
        }
        if a.step(op, &none, &mut scratch).is_err() {
            return;
        }
    }
    lines.push("clear".into());
    lines.push(format!("#twin hint={}", hint_b));
    if let Err(f) = a.step(&KOp::Clear, &mon, rep) {
        rep.violation(twin_viol(C::NAME, "key", format!("clear:{}", f.sig), f.msg, ctor, lines));
        return;
    }
    rep.counters.inc("clears_checked");
    if prefix.is_empty() {
        rep.counters.inc("clears_of_empty_collection");
    }
    let base = a.next_id;
    let mut b = KeyExec::<C>::new(hint_b);
    for (i, op) in suffix.iter().enumerate() {
        ctx::set(hist, (prefix.len() + 1 + i) as u64);
        lines.push(op.line());
        let ra = a.step(op, &mon, rep);
        let rb = b.step(op, &mon, &mut scratch);
        rep.evaluations += 1;
        match (ra, rb) {
            (Err(f), _) if f.sig.starts_with("HARNESS") => return,
            (Err(f), _) => {
                rep.violation(twin_viol(C::NAME, "key", format!("after-clear:{}", f.sig), format!("cleared instance diverges from the reference semantics: {}", f.msg), ctor, lines));
                return;
            }
            (Ok(_), Err(_)) => {
                rep.counters.inc("fresh_twin_failed_its_own_monitor");
                return;
            }
            (Ok(oa), Ok(ob)) => {
                let oa = norm(oa, base);
                if !obs_eq(&oa, &ob, false) {
                    rep.violation(twin_viol(C::NAME, "key", "after-clear:differs-from-fresh".into(), format!("`{}` observed {:?} on the cleared instance and {:?} on a fresh one", op.line(), oa, ob), ctor, lines));
                    return;
                }
                rep.case(mix(hist, i as u64));
            }
        }
        if matches!(op, KOp::Clear) {
            rep.counters.inc("repeated_clears");
            return; // ids are no longer aligned after a second clear; the next history covers it
        }
        if matches!(op, KOp::Export { .. }) {
            return;
        }
    }
}

fn twin_ord<C: ord::OrdColl>(rep: &mut Report, hint_a: usize, hint_b: usize, uni: (i32, i32), prefix: &[OOp], suffix: &[OOp], hist: u64) {
    let mon = OMon { lookup: true, handle: true, steps: true, held: true, structure: false, slots: false, removal_stats: false };
    let none = OMon::default();
    let mut lines: Vec<String> = prefix.iter().map(|o| o.line()).collect();
    let ctor = format!("hint={} uni={}..{} twin_hint={}", hint_a, uni.0, uni.1, hint_b);
    ctx::set(hist, 0);
    let mut a = OrdExec::<C>::new(hint_a, uni);
    let mut scratch = Report::new();
    for (i, op) in prefix.iter().enumerate() {
        ctx::set(hist, i as u64);
        if a.step(op, &none, &mut scratch).is_err() {
            return;
        }
    }
    lines.push("clear".into());
    lines.push(format!("#twin hint={}", hint_b));
    if let Err(f) = a.step(&OOp::Clear, &mon, rep) {
        rep.violation(twin_viol(C::NAME, "ord", format!("clear:{}", f.sig), f.msg, ctor, lines));
        return;
    }
    rep.counters.inc("clears_checked");
    if prefix.is_empty() {
        rep.counters.inc("clears_of_empty_collection");
    }
    let base = if C::UNIQUE_IDS { a.next_id } else { 0 };
    let mut b = OrdExec::<C>::new(hint_b, uni);
    for (i, op) in suffix.iter().enumerate() {
        ctx::set(hist, (prefix.len() + 1 + i) as u64);
        lines.push(op.line());
        let ra = a.step(op, &mon, rep);
        let rb = b.step(op, &mon, &mut scratch);
        rep.evaluations += 1;
        match (ra, rb) {
            (Err(f), _) if f.sig.starts_with("HARNESS") => return,
            (Err(f), _) => {
                rep.violation(twin_viol(C::NAME, "ord", format!("after-clear:{}", f.sig), format!("cleared instance diverges from the reference semantics: {}", f.msg), ctor, lines));
                return;
            }
            (Ok(_), Err(_)) => {
                rep.counters.inc("fresh_twin_failed_its_own_monitor");
                return;
            }
            (Ok(oa), Ok(ob)) => {
                let oa = if C::UNIQUE_IDS { norm(oa, base) } else { oa };
                if !obs_eq(&oa, &ob, false) {
                    rep.violation(twin_viol(C::NAME, "ord", "after-clear:differs-from-fresh".into(), format!("`{}` observed {:?} on the cleared instance and {:?} on a fresh one", op.line(), oa, ob), ctor, lines));
                    return;
                }
                rep.case(mix(hist, i as u64));
            }
        }
        if matches!(op, OOp::Clear) {
            rep.counters.inc("repeated_clears");
            return;
        }
    }
}

fn twin_seg(rep: &mut Report, dom: (i64, i64), prefix: &[SOp], suffix: &[SOp], hist: u64) {
    let mon = SMon { query: true, purge: false, tiling: false, layout: false };
    let none = SMon::default();
    let mut lines: Vec<String> = prefix.iter().map(|o| o.line()).collect();
    let ctor = format!("coord=i32 lo={} hi={}", dom.0, dom.1);
    ctx::set(hist, 0);
    let mut a = match SegExec::<i32>::new(dom.0, dom.1) {
        Some(a) => a,
        None => return,
    };
    let mut scratch = Report::new();
    for (i, op) in prefix.iter().enumerate() {
        ctx::set(hist, i as u64);
        if a.step(op, &none, &mut scratch).is_err() {
            return;
        }
    }
    lines.push("clear".into());
    lines.push("#twin".into());
    if let Err(f) = a.step(&SOp::Clear, &mon, rep) {
        rep.violation(twin_viol("SegExpTree", "seg", format!("clear:{}", f.sig), f.msg, ctor, lines));
        return;
    }
    rep.counters.inc("clears_checked");
    if prefix.is_empty() {
        rep.counters.inc("clears_of_empty_collection");
    }
    let base = (a.next_id - 1) as u64;
    let mut b = SegExec::<i32>::new(dom.0, dom.1).unwrap();
    for (i, op) in suffix.iter().enumerate() {
        ctx::set(hist, (prefix.len() + 1 + i) as u64);
        lines.push(op.line());
        let ra = a.step(op, &mon, rep);
        let rb = b.step(op, &mon, &mut scratch);
        rep.evaluations += 1;
        match (ra, rb) {
            (Err(f), _) if f.sig.starts_with("HARNESS") => return,
            (Err(f), _) => {
                rep.violation(twin_viol("SegExpTree", "seg", format!("after-clear:{}", f.sig), format!("cleared instance diverges from the reference semantics: {}", f.msg), ctor, lines));
                return;
            }
            (Ok(_), Err(_)) => {
                rep.counters.inc("fresh_twin_failed_its_own_monitor");
                return;
            }
            (Ok(oa), Ok(ob)) => {
                let oa = norm(oa, base);
                if !obs_eq(&oa, &ob, true) {
                    rep.violation(twin_viol("SegExpTree", "seg", "after-clear:differs-from-fresh".into(), format!("`{}` observed {:?} on the cleared instance and {:?} on a fresh one", op.line(), oa, ob), ctor, lines));
                    return;
                }
                rep.case(mix(hist, i as u64));
            }
        }
        if matches!(op, SOp::Clear) {
            rep.counters.inc("repeated_clears");
            return;
        }
    }
}

const TWIN_COLLS: [&str; 7] = ["KeyExpTree", "KeyExpList", "MapTree", "MapList", "SetTree", "SetList", "SegExpTree"];

/// (collection, ctor, prefix lines, suffix lines)
fn twin_history(cfg: &Cfg, h: u64) -> (&'static str, String, Vec<String>, Vec<String>) {
    let coll = TWIN_COLLS[(h % 7) as usize];
    let mut rng = Rng::new(cfg.seed).derive(0x7717).derive(h);
    let variant = (h / 7) % 6; // 0: empty prefix, 1: prefix forces arena growth, else random
    let small = cfg.flag("small"); // Miri: short prefixes (the arena still grows: 8 slots at hint 0)
    let hint_b = *rng.pick(&[0usize, 1, 8, 9, 300]);
    match coll {
        "KeyExpTree" | "KeyExpList" => {
            let profs = key::profiles(false);
            let mut p = profs[(h / 49 % profs.len() as u64) as usize].clone();
            p.export_end = false;
            p.len = match variant {
                0 => 0,
                1 => 400,
                _ => p.len.min(120),
            };
            if variant == 1 {
                p.u = 200;
                p.r = 300;
                p.t_base = 0;
                p.w = [80, 2, 5, 5, 5, 1, 0];
            }
            if small {
                p.len = p.len.min(24);
                p.u = p.u.min(14);
            }
            let (hint, pre) = key::gen_history(&p, &mut rng);
            let mut q = profs[(h / 7 % profs.len() as u64) as usize].clone();
            q.len = q.len.min(if small { 20 } else { 70 });
            q.export_end = h % 2 == 0;
            let (_, suf) = key::gen_history(&q, &mut rng);
            (coll, format!("hint={} twin_hint={}", hint, hint_b), pre.iter().map(|o| o.line()).collect(), suf.iter().map(|o| o.line()).collect())
        }
        "SegExpTree" => {
            let hh = if (h / 7) % 13 == 7 { h / 7 + 1 } else { h / 7 };
            let ((lo, hi), pre) = seg_suites::gen_history(&mut rng, hh, if variant == 0 { 0 } else if small { 16 } else { 60 });
            // same domain for the suffix: regenerate with the same domain selector
            let mut r2 = rng.derive(9);
            let (_, mut suf) = seg_suites::gen_history(&mut r2, 0, if small { 14 } else { 40 });
            // coordinates of the suffix were drawn for [0,31]; map them into the domain
            for op in suf.iter_mut() {
                let m = |x: i64| -> i64 { (lo as i128 + ((x as i128) * (hi as i128 - lo as i128) / 31)) as i64 };
                match op {
                    SOp::Ins { lo: a, hi: b, .. } | SOp::Q { lo: a, hi: b, .. } => {
                        *a = m(*a);
                        *b = m(*b);
                    }
                    _ => {}
                }
            }
            let pre = if variant == 0 { vec![] } else { pre };
            (coll, format!("coord=i32 lo={} hi={}", lo, hi), pre.iter().map(|o| o.line()).collect(), suf.iter().map(|o| o.line()).collect())
        }
        _ => {
            let profs = ord::profiles(false);
            let mut p = profs[(h / 49 % profs.len() as u64) as usize].clone();
            p.len = match variant {
                0 => 0,
                1 => 500,
                _ => p.len.min(150),
            };
            if variant == 1 {
                p.u = 400;
                p.w = [80, 4, 2, 2, 2, 2, 1, 1, 0, 0, 1, 1, 0, 0, 0, 0, 0];
            }
            if small {
                p.len = p.len.min(24);
                p.u = p.u.min(14);
            }
            let is_set = coll.starts_with("Set");
            let (hint, _, pre) = ord::gen_history(&p, is_set, &mut rng);
            let pre = if variant == 0 { vec![] } else { pre };
            let mut q = profs[(h / 7 % profs.len() as u64) as usize].clone();
            q.len = q.len.min(if small { 20 } else { 90 });
            if small {
                q.u = q.u.min(14);
            }
            let (_, uni, suf) = ord::gen_history(&q, is_set, &mut rng);
            let uni = (uni.0.min(0), uni.1.max(2 * p.u));
            (coll, format!("hint={} uni={}..{} twin_hint={}", hint, uni.0, uni.1, hint_b), pre.iter().map(|o| o.line()).collect(), suf.iter().map(|o| o.line()).collect())
        }
    }
}

fn ctor_val(ctor: &str, key: &str) -> Option<String> {
    ctor.split_whitespace().find_map(|p| p.strip_prefix(&format!("{}=", key)).map(|s| s.to_string()))
}

pub fn twin_run(coll: &str, ctor: &str, pre: &[String], suf: &[String], rep: &mut Report, hist: u64) {
    let hint_a: usize = ctor_val(ctor, "hint").and_then(|s| s.parse().ok()).unwrap_or(8);
    let hint_b: usize = ctor_val(ctor, "twin_hint").and_then(|s| s.parse().ok()).unwrap_or(8);
    match coll {
        "KeyExpTree" | "KeyExpList" => {
            let p: Vec<KOp> = pre.iter().filter_map(|l| KOp::parse(l)).collect();
            let s: Vec<KOp> = suf.iter().filter_map(|l| KOp::parse(l)).collect();
            if coll == "KeyExpTree" {
                twin_key::<KTree>(rep, hint_a, hint_b, &p, &s, hist)
            } else {
                twin_key::<KList>(rep, hint_a, hint_b, &p, &s, hist)
            }
        }
        "SegExpTree" => {
            let lo: i64 = ctor_val(ctor, "lo").and_then(|s| s.parse().ok()).unwrap_or(0);
            let hi: i64 = ctor_val(ctor, "hi").and_then(|s| s.parse().ok()).unwrap_or(31);
            let p: Vec<SOp> = pre.iter().filter_map(|l| SOp::parse(l)).collect();
            let s: Vec<SOp> = suf.iter().filter_map(|l| SOp::parse(l)).collect();
            twin_seg(rep, (lo, hi), &p, &s, hist)
        }
        _ => {
            let uni = ctor_val(ctor, "uni").and_then(|s| s.split_once("..").map(|(a, b)| (a.parse().unwrap_or(0), b.parse().unwrap_or(20)))).unwrap_or((0, 20));
            let p: Vec<OOp> = pre.iter().filter_map(|l| OOp::parse(l)).collect();
            let s: Vec<OOp> = suf.iter().filter_map(|l| OOp::parse(l)).collect();
            match coll {
                "MapTree" => twin_ord::<MTree>(rep, hint_a, hint_b, uni, &p, &s, hist),
                "MapList" => twin_ord::<MList>(rep, hint_a, hint_b, uni, &p, &s, hist),
                "SetTree" => twin_ord::<STree>(rep, hint_a, hint_b, uni, &p, &s, hist),
                _ => twin_ord::<SList>(rep, hint_a, hint_b, uni, &p, &s, hist),
            }
        }
    }
}

pub fn suite_clear_twin(cfg: &Cfg, rep: &mut Report) {
    let mut h = cfg.shard;
    while h < cfg.budget {
        if let Some(o) = cfg.only {
            if h != o {
                h += cfg.nshards;
                continue;
            }
        }
        let (coll, ctor, pre, suf) = twin_history(cfg, h);
        if cfg.emit {
            println!("CTOR coll={} {}", coll, ctor);
            for l in &pre {
                println!("OP {}", l);
            }
            println!("OP clear");
            println!("OP #twin");
            for l in &suf {
                println!("OP {}", l);
            }
            return;
        }
        if rep.samples.len() < 2 && !pre.is_empty() {
            rep.sample(J::obj(vec![
                ("history", J::UInt(h)),
                ("collection", J::s(coll)),
                ("ctor", J::s(ctor.clone())),
                ("prefix_ops", J::UInt(pre.len() as u64)),
                ("prefix_head", J::strs(&pre[..pre.len().min(12)])),
                ("suffix_head", J::strs(&suf[..suf.len().min(20)])),
            ]));
        }
        rep.histories += 1;
        rep.counters.inc(&format!("histories_{}", coll));
        twin_run(coll, &ctor, &pre, &suf, rep, h);
        h += cfg.nshards;
    }
}

// ---------------------------------------------------------------------------------------------
// C19: export allocates in proportion to the entry count

fn order_keys(n: usize, order: &str, rng: &mut Rng) -> Vec<i32> {
    let mut v: Vec<i32> = (0..n as i32).collect();
    match order {
        "desc" => v.reverse(),
        "random" => rng.shuffle(&mut v),
        "organ" => {
            let mut o = Vec::with_capacity(n);
            let (mut i, mut j) = (0i32, n as i32 - 1);
            while i <= j {
                o.push(i);
                if i != j {
                    o.push(j);
                }
                i += 1;
                j -= 1;
            }
            v = o;
        }
        _ => {}
    }
    v
}

/// one export case; returns Err(message) on violation
pub fn export_case(coll: &str, n: usize, order: &str, expired_every: usize, seed: u64, rep: &mut Report) -> Result<(), Fail> {
    let mut rng = Rng::new(seed).derive(n as u64);
    let keys = order_keys(n, order, &mut rng);
    let exp_of = |k: i32| -> i32 {
        if expired_every > 0 && (k as usize) % expired_every == 0 {
            5
        } else {
            1000
        }
    };
    // expired_every == 1: "drained" shape - all but the 10 smallest keys expire and are physically
    // removed by lookups before the export, so the arena is large but almost nothing is stored
    let drained = expired_every == 1;
    let exp_of = |k: i32| -> i32 {
        if drained {
            if k < 10 {
                1000
            } else {
                5
            }
        } else {
            exp_of(k)
        }
    };
    let live = keys.iter().filter(|&&k| exp_of(k) > 10).count();
    let n_keys = n;
    let mut content_mismatch: Option<usize> = None;
    let mut n = n;
    let mut arena_slots = 0usize;
    let (cap, len, maxreq, first, last) = if coll == "tree" {
        let mut t = KeyExpTree::<KKey, i32, u64>::new(8);
        for &k in &keys {
            t.insert(KKey { k, exp: exp_of(k), tag: 0 }, k as u64, 0);
        }
        if drained {
            for &k in &keys {
                let _ = t.get_value(10, KKey { k, exp: i32::MAX, tag: 1 });
            }
            let s = t.verif_snapshot(|_, _| ());
            n = snap::reachable(&s).iter().filter(|x| **x).count();
            arena_slots = s.slots.len();
            rep.counters.inc("exports_of_drained_arena");
            rep.counters.max("max_arena_slots_over_stored_entries", (arena_slots / n.max(1)) as u64);
        }
        alloc::region_start();
        ctx::phase(0);
        let v = t.into_ordered_vec(10);
        ctx::phase(1);
        let (maxreq, _, _) = alloc::region_end();
        content_mismatch = export_content_mismatch(&v, n_keys, &exp_of);
        (v.capacity(), v.len(), maxreq, v.first().copied(), v.last().copied())
    } else {
        let mut t = KeyExpList::<KKey, i32, u64>::new(8);
        // ascending insertion keeps the sorted-vector insert cheap; order does not matter for a list
        for k in 0..n as i32 {
            t.insert(KKey { k, exp: exp_of(k), tag: 0 }, k as u64, 0);
        }
        alloc::region_start();
        ctx::phase(0);
        let v = t.into_ordered_vec(10);
        ctx::phase(1);
        let (maxreq, _, _) = alloc::region_end();
        content_mismatch = export_content_mismatch(&v, n_keys, &exp_of);
        (v.capacity(), v.len(), maxreq, v.first().copied(), v.last().copied())
    };
    rep.evaluations += 1;
    rep.case(mix(n as u64, mix(cap as u64, crate::util::hash_bytes(order.as_bytes()) ^ expired_every as u64)));
    rep.counters.max("max_entries_exported", n as u64);
    rep.counters.max("max_capacity_returned", cap as u64);
    rep.counters.max("max_single_allocation_request_bytes", maxreq as u64);
    if len != live {
        return Err(Fail::new("export:wrong-length", format!("export of {} entries ({} live) returned {} values", n, live, len)));
    }
    if let Some(bad) = content_mismatch {
        return Err(Fail::new("export:wrong-order-or-entry", format!("export of {} entries: position {} holds a value that is not the {}-th live key", n, bad, bad)));
    }
    if live > 0 && (first.is_none() || first > last) {
        return Err(Fail::new("export:wrong-order", "export is not in key order".to_string()));
    }
    // capacity and allocation size are C19's business, and C19 speaks of the tree
    if coll != "tree" {
        return Ok(());
    }
    if cap > 4 * n + 64 {
        return Err(Fail::new("export:capacity", format!("into_ordered_vec returned capacity {} for {} stored entries (limit 4n+64 = {})", cap, n, 4 * n + 64)));
    }
    // largest single request while exporting: the result vector (8 bytes per value) or the purge
    // bookkeeping, all linear; allow the same 4n+64 elements of 16 bytes
    // (a drained arena: the purge's per-slot bookkeeping is one byte per arena slot)
    if maxreq > (4 * n + 64) * 16 + arena_slots {
        return Err(Fail::new("export:allocation", format!("into_ordered_vec requested a single allocation of {} bytes for {} stored entries", maxreq, n)));
    }
    Ok(())
}

/// the export must be exactly the live keys (value == key) in increasing order
fn export_content_mismatch(v: &[u64], n_keys: usize, exp_of: &dyn Fn(i32) -> i32) -> Option<usize> {
    let mut i = 0usize;
    for k in 0..n_keys as i32 {
        if exp_of(k) > 10 {
            if v.get(i).copied() != Some(k as u64) {
                return Some(i);
            }
            i += 1;
        }
    }
    None
}

pub fn export_sizes(max_n: usize) -> Vec<usize> {
    let mut v: Vec<usize> = (0..=64).collect();
    let mut x = 64usize;
    while x < max_n {
        x = x * 3 / 2 + 1;
        v.push(x.min(max_n));
    }
    for k in 7..=22 {
        for d in [0usize, 1] {
            let y = (1usize << k) - d;
            if y <= max_n {
                v.push(y);
            }
        }
    }
    v.sort_unstable();
    v.dedup();
    v
}

pub fn suite_export_size(cfg: &Cfg, rep: &mut Report) {
    let max_n = cfg.num("max_n", 200_000) as usize;
    let sizes = export_sizes(max_n);
    let orders = ["asc", "desc", "random", "organ"];
    let mut idx = 0u64;
    for &n in &sizes {
        for order in orders {
            for expired_every in [0usize, 3, 1] {
                for coll in ["tree", "list"] {
                    if coll == "list" && (order != "asc" || n > 300_000 || expired_every == 1) {
                        continue;
                    }
                    if expired_every == 1 && n < 20 {
                        continue;
                    }
                    idx += 1;
                    if (idx - 1) % cfg.nshards != cfg.shard {
                        continue;
                    }
                    if let Some(o) = cfg.only {
                        if o != idx {
                            continue;
                        }
                    }
                    ctx::set(idx, n as u64);
                    rep.histories += 1;
                    let line = format!("#export-size coll={} n={} order={} expired_every={} seed={}", coll, n, order, expired_every, cfg.seed);
                    if cfg.emit {
                        println!("CTOR case");
                        println!("OP {}", line);
                        return;
                    }
                    if let Err(f) = export_case(coll, n, order, expired_every, cfg.seed, rep) {
                        rep.violation(Viol { sig: format!("KeyExp{}:{}", if coll == "tree" { "Tree" } else { "List" }, f.sig), msg: f.msg, family: "case".into(), coll: coll.into(), ctor: "case".into(), ops: vec![line], confirmed: true });
                    }
                }
            }
        }
    }
    rep.sample(J::obj(vec![
        ("sizes", J::Arr(sizes.iter().rev().take(8).map(|x| J::UInt(*x as u64)).collect())),
        ("sizes_total", J::UInt(sizes.len() as u64)),
        ("orders", J::Arr(orders.iter().map(|o| J::s(*o)).collect())),
        ("per_case", J::s("build KeyExpTree/KeyExpList with n entries (every 3rd expired in half of the cases), into_ordered_vec(10): capacity <= 4n+64, largest single allocation request <= (4n+64)*16 bytes, length == live entries")),
    ]));
}

// ---------------------------------------------------------------------------------------------
// large trees: height bound and storage bound where they are tight

fn big_check<P>(s: &i_tree::verif::VerifSnapshot<P>, key: impl Fn(&P) -> i64, want_n: usize, peak: usize, hint: usize, rep: &mut Report) -> Result<(), Fail> {
    let info = snap::check_structure(s, key).map_err(|e| Fail::new("structure", e))?;
    snap::check_slots(s).map_err(|e| Fail::new("slots", e))?;
    rep.counters.inc("snapshots_checked");
    rep.counters.max("max_height_seen", info.height as u64);
    rep.counters.max("max_entries_seen", info.n as u64);
    rep.counters.max("max_buffer_len_seen", s.slots.len() as u64);
    rep.evaluations += 1;
    rep.case(mix(info.n as u64, info.height as u64));
    if info.n != want_n {
        return Err(Fail::new("structure:count", format!("{} entries linked, {} expected", info.n, want_n)));
    }
    let bound = snap::slots_bound(peak, hint);
    if s.slots.len() > bound {
        return Err(Fail::new("slots-bound", format!("arena has {} slots, peak population {} (bound {})", s.slots.len(), peak, bound)));
    }
    Ok(())
}

/// probes for the predecessor-handle and neighbour-step monitors on a large tree: both ends of the
/// key range (where the tree is deepest after ordered insertion) and a random sample in between
fn big_probes(n: usize, sorted: &[i32], rng: &mut Rng) -> Vec<i32> {
    let mut v: Vec<i32> = vec![-1, n as i32, n as i32 + 5];
    for i in 0..96.min(sorted.len()) {
        v.push(sorted[i]);
        v.push(sorted[sorted.len() - 1 - i]);
    }
    for _ in 0..1500 {
        v.push(rng.below(n as u64 + 1) as i32);
    }
    v
}

fn expected_pred(sorted: &[i32], p: i32) -> Option<i32> {
    let i = sorted.partition_point(|&k| k <= p);
    if i == 0 {
        None
    } else {
        Some(sorted[i - 1])
    }
}

fn big_map_handles(t: &mut MapTree<MKey, MVal>, n: usize, sorted: &[i32], rng: &mut Rng, rep: &mut Report) -> Result<(), Fail> {
    for p in big_probes(n, sorted, rng) {
        let want = expected_pred(sorted, p);
        let h = t.first_index_less(MKey(p));
        let h2 = t.first_index_less_by(|s: MKey| s.0.cmp(&p));
        rep.evaluations += 1;
        rep.counters.inc("big_handle_probes");
        if h != h2 {
            return Err(Fail::new("first_index_less_by:disagrees-with-key-form", format!("n={} probe {}: key form {} comparator form {}", n, p, h as i32, h2 as i32)));
        }
        match want {
            None => {
                if h != i_tree::EMPTY_REF {
                    return Err(Fail::new("first_index_less:handle-instead-of-sentinel", format!("n={} probe {} returned handle {}", n, p, h)));
                }
            }
            Some(k) => {
                if h == i_tree::EMPTY_REF {
                    return Err(Fail::new("first_index_less:sentinel-instead-of-handle", format!("n={} probe {}: reference key {}", n, p, k)));
                }
                let v = t.value_by_index(h);
                if v.key_copy != k || v.id != k as u64 {
                    return Err(Fail::new("first_index_less:wrong-entry", format!("n={} probe {}: handle designates key {} id {}, reference key {}", n, p, v.key_copy, v.id, k)));
                }
                // write through the handle and read back by key
                *t.value_by_index_mut(h) = MVal::new(k, k as u64);
                match t.get_value(MKey(k)) {
                    Some(v) if v.id == k as u64 && v.key_copy == k => {}
                    _ => return Err(Fail::new("get-after-write-through-handle:wrong-value", format!("n={} key {}", n, k))),
                }
            }
        }
    }
    Ok(())
}

fn big_set_handles(t: &SetTree<SKey, SVal>, n: usize, sorted: &[i32], rng: &mut Rng, rep: &mut Report, steps: bool) -> Result<(), Fail> {
    for p in big_probes(n, sorted, rng) {
        let want = expected_pred(sorted, p);
        let h = t.first_index_less(&SKey(p));
        let h2 = t.first_index_less_by(|s: &SKey| s.0.cmp(&p));
        rep.evaluations += 1;
        rep.counters.inc("big_handle_probes");
        if !steps && h != h2 {
            return Err(Fail::new("first_index_less_by:disagrees-with-key-form", format!("n={} probe {}: key form {} comparator form {}", n, p, h as i32, h2 as i32)));
        }
        match want {
            None => {
                if !steps && h != i_tree::EMPTY_REF {
                    return Err(Fail::new("first_index_less:handle-instead-of-sentinel", format!("n={} probe {} returned handle {}", n, p, h)));
                }
            }
            Some(k) => {
                if h == i_tree::EMPTY_REF {
                    if steps {
                        continue;
                    }
                    return Err(Fail::new("first_index_less:sentinel-instead-of-handle", format!("n={} probe {}: reference key {}", n, p, k)));
                }
                let v = t.value_by_index(h);
                if v.key.0 != k {
                    if steps {
                        continue;
                    }
                    return Err(Fail::new("first_index_less:wrong-entry", format!("n={} probe {}: handle designates key {}, reference key {}", n, p, v.key.0, k)));
                }
                if steps {
                    let i = sorted.partition_point(|&x| x < k);
                    let next = sorted.get(i + 1).copied();
                    let prev = if i > 0 { Some(sorted[i - 1]) } else { None };
                    for (name, got, want) in [("index_after", t.index_after(h), next), ("index_before", t.index_before(h), prev)] {
                        rep.counters.inc("big_step_probes");
                        match want {
                            None => {
                                if got != i_tree::EMPTY_REF {
                                    return Err(Fail::new(format!("{}:handle-instead-of-sentinel", name), format!("n={} from key {}: returned handle {}", n, k, got)));
                                }
                            }
                            Some(w) => {
                                if got == i_tree::EMPTY_REF {
                                    return Err(Fail::new(format!("{}:sentinel-instead-of-handle", name), format!("n={} from key {}: reference key {}", n, k, w)));
                                }
                                if t.value_by_index(got).key.0 != w {
                                    return Err(Fail::new(format!("{}:wrong-entry", name), format!("n={} from key {}: got key {}, reference {}", n, k, t.value_by_index(got).key.0, w)));
                                }
                            }
                        }
                    }
                }
            }
        }
    }
    Ok(())
}

/// C01 / C06 on a large expiring-key tree: every entry live, probes at both ends of the key range
/// (deepest after ordered insertion) and a random sample, all four query kinds
fn big_kquery_case(n: usize, order: &str, hint: usize, rng: &mut Rng, rep: &mut Report) -> Result<(), Fail> {
    let keys = order_keys(n, order, rng);
    let mut t = KeyExpTree::<KKey, i32, u64>::new(hint);
    for (i, &k) in keys.iter().enumerate() {
        ctx::set(n as u64, i as u64);
        // keys 2k+1 so that gap probes exist; half of the entries outlive the query time by one tick
        t.insert(KKey { k: 2 * k + 1, exp: if k % 2 == 0 { 11 } else { 1000 }, tag: 0 }, k as u64 + 1, 0);
    }
    let sorted: Vec<i32> = (0..n as i32).collect();
    let tq = 10;
    for p in big_probes(n, &sorted, rng) {
        for q in [2 * p, 2 * p + 1, 2 * p + 2] {
            // reference: stored keys are the odd numbers 1..=2n-1, all live at time 10
            let pred = |strict: bool| -> u64 {
                let lim = if strict { q - 1 } else { q };
                if lim < 1 {
                    return u64::MAX;
                }
                let k = ((lim - 1) / 2).min(n as i32 - 1); // index of the greatest odd key <= lim
                k as u64 + 1
            };
            let probe = KKey { k: q, exp: key::probe_stamp(q as u32, tq), tag: 1 };
            rep.evaluations += 4;
            rep.counters.add("big_key_queries", 4);
            let fl = t.first_less(tq, u64::MAX, probe);
            if fl != pred(true) {
                return Err(Fail::new("first_less:wrong-entry", format!("n={} first_less(t={}, probe={}) returned {}, reference {}", n, tq, q, fl as i64, pred(true) as i64)));
            }
            let fle = t.first_less_or_equal(tq, u64::MAX, probe);
            if fle != pred(false) {
                return Err(Fail::new("first_less_or_equal:wrong-entry", format!("n={} first_less_or_equal(t={}, probe={}) returned {}, reference {}", n, tq, q, fle as i64, pred(false) as i64)));
            }
            let fb = t.first_less_or_equal_by(tq, u64::MAX, |s: KKey| s.k.cmp(&q));
            if fb != pred(false) {
                return Err(Fail::new("first_less_or_equal_by:wrong-entry", format!("n={} first_less_or_equal_by(t={}, probe={}) returned {}, reference {}", n, tq, q, fb as i64, pred(false) as i64)));
            }
            let want = if q % 2 == 1 && q >= 1 && q <= 2 * n as i32 - 1 { Some((q as u64 - 1) / 2 + 1) } else { None };
            let got = t.get_value(tq, probe);
            if got != want {
                return Err(Fail::new(if want.is_some() { "get:missed-live" } else { "get:found-dead" }, format!("n={} get_value(t={}, {}) returned {:?}, reference {:?}", n, tq, q, got, want)));
            }
        }
    }
    // one tick later the even-indexed half has expired: the same probes against the other half
    let tq = 11;
    for p in big_probes(n, &sorted, rng).into_iter().take(400) {
        let q = 2 * p + 1;
        let probe = KKey { k: q, exp: key::probe_stamp(q as u32, tq), tag: 1 };
        // greatest odd-indexed k with 2k+1 <= q
        let mut k = p.min(n as i32 - 1);
        if k >= 0 && k % 2 == 0 {
            k -= 1;
        }
        let want = if p < 0 || k < 0 { u64::MAX } else { k as u64 + 1 };
        let fle = t.first_less_or_equal(tq, u64::MAX, probe);
        rep.evaluations += 1;
        rep.counters.inc("big_key_queries");
        if fle != want {
            return Err(Fail::new("first_less_or_equal:wrong-entry", format!("n={} first_less_or_equal(t={}, probe={}) returned {}, reference {}", n, tq, q, fle as i64, want as i64)));
        }
    }
    Ok(())
}

/// C04 / C05 (lookup, delete by key on deep paths) and C17 (handles held across insertions) on
/// large map / set trees. Keys are 4k+1, so gap keys 4k+3 can be inserted later next to any entry.
fn big_lookup_held_case(coll: &str, n: usize, order: &str, hint: usize, rng: &mut Rng, rep: &mut Report, held: bool) -> Result<(), Fail> {
    let keys = order_keys(n, order, rng);
    let sorted: Vec<i32> = (0..n as i32).collect();
    let probes = big_probes(n, &sorted, rng);
    let is_map = coll == "maptree";
    let mut mt = MapTree::<MKey, MVal>::new(hint);
    let mut st = SetTree::<SKey, SVal>::new(hint);
    // C17 across arena growth: handles taken while the tree is small (1,000 / 30,000 entries) are
    // re-checked at every doubling of the population, i.e. across every growth step of the arena
    let mut early: Vec<(i32, u32)> = Vec::new();
    let mut next_check = 2000usize;
    for (i, &k) in keys.iter().enumerate() {
        ctx::set(n as u64, i as u64);
        if is_map {
            mt.insert(MKey(4 * k + 1), MVal::new(4 * k + 1, k as u64 + 1));
        } else {
            st.insert(SVal::new(4 * k + 1, k as u64 + 1));
        }
        if held && (i + 1 == 1000 || i + 1 == 30_000) {
            for &kk in keys[..=i].iter().rev().take(300).chain(keys[..=i].iter().take(300)) {
                let key = 4 * kk + 1;
                let h = if is_map { mt.first_index_less(MKey(key)) } else { st.first_index_less(&SKey(key)) };
                if h != i_tree::EMPTY_REF {
                    early.push((key, h));
                }
            }
            rep.counters.add("handles_taken", early.len() as u64);
        }
        if held && (i + 1 == next_check || i + 1 == n) && !early.is_empty() {
            next_check *= 2;
            rep.counters.inc("growth_checkpoints_with_held_handles");
            for &(key, h) in &early {
                rep.evaluations += 1;
                rep.counters.inc("held_handles_rechecked");
                let gk = if is_map { mt.value_by_index(h).key_copy } else { st.value_by_index(h).key.0 };
                let h2 = if is_map { mt.first_index_less(MKey(key)) } else { st.first_index_less(&SKey(key)) };
                if gk != key {
                    return Err(Fail::new("held-handle:designates-other-entry", format!("n={} after {} insertions: handle {} taken for key {} now designates key {}", n, i + 1, h, key, gk)));
                }
                if h2 != h {
                    return Err(Fail::new("held-handle:key-moved", format!("n={} after {} insertions: key {} was behind handle {}, first_index_less now returns {}", n, i + 1, key, h, h2 as i32)));
                }
            }
        }
    }
    let get = |mt: &MapTree<MKey, MVal>, st: &SetTree<SKey, SVal>, key: i32| -> Option<(i32, u64, bool)> {
        if is_map {
            mt.get_value(MKey(key)).map(|v| (v.key_copy, v.id, v.pay.intact()))
        } else {
            st.get_value(&SKey(key)).map(|v| (v.key.0, v.id, v.pay.intact()))
        }
    };
    let mut removed: std::collections::HashSet<i32> = std::collections::HashSet::new();
    let mut added: std::collections::HashSet<i32> = std::collections::HashSet::new();
    let check_all = |mt: &MapTree<MKey, MVal>, st: &SetTree<SKey, SVal>, removed: &std::collections::HashSet<i32>, added: &std::collections::HashSet<i32>, rep: &mut Report, what: &str| -> Result<(), Fail> {
        for &p in &probes {
            for key in [4 * p + 1, 4 * p + 3, 4 * p] {
                let k = key.div_euclid(4);
                let want = if key.rem_euclid(4) == 1 && p >= 0 && (p as usize) < n && !removed.contains(&key) {
                    Some((key, k as u64 + 1))
                } else if added.contains(&key) {
                    Some((key, key as u64))
                } else {
                    None
                };
                let got = get(mt, st, key);
                rep.evaluations += 1;
                rep.counters.inc("big_lookups");
                let ok = match (got, want) {
                    (None, None) => true,
                    (Some(g), Some(w)) => g.0 == w.0 && g.1 == w.1 && g.2,
                    _ => false,
                };
                if !ok {
                    let class = if want.is_some() && got.is_none() { "missing" } else if want.is_none() { "present-but-deleted-or-never-inserted" } else { "wrong-value" };
                    return Err(Fail::new(format!("{}:{}", what, class), format!("n={} get_value({}) returned {:?}, reference {:?}", n, key, got, want)));
                }
            }
        }
        Ok(())
    };
    check_all(&mt, &st, &removed, &added, rep, "get")?;
    if held {
        // handles for the entries at both ends and a random sample, then insertions right next to them
        let mut handles: Vec<(i32, u32)> = Vec::new();
        for &p in probes.iter().filter(|&&p| p >= 0 && (p as usize) < n).take(1200) {
            let key = 4 * p + 1;
            let h = if is_map { mt.first_index_less(MKey(key)) } else { st.first_index_less(&SKey(key)) };
            if h == i_tree::EMPTY_REF {
                return Err(Fail::new("first_index_less:sentinel-instead-of-handle", format!("n={} no handle for stored key {}", n, key)));
            }
            handles.push((key, h));
        }
        rep.counters.add("handles_taken", handles.len() as u64);
        for (i, &p) in probes.iter().enumerate() {
            if p < -1 || p as i64 > n as i64 {
                continue;
            }
            let key = 4 * p + 3;
            if added.insert(key) {
                if is_map {
                    mt.insert(MKey(key), MVal::new(key, key as u64));
                } else {
                    st.insert(SVal::new(key, key as u64));
                }
            }
            if i % 64 == 63 || i + 1 == probes.len() {
                for &(k, h) in &handles {
                    rep.evaluations += 1;
                    rep.counters.inc("held_handles_rechecked");
                    let (gk, gid) = if is_map {
                        let v = mt.value_by_index(h);
                        (v.key_copy, v.id)
                    } else {
                        let v = st.value_by_index(h);
                        (v.key.0, v.id)
                    };
                    let h2 = if is_map { mt.first_index_less(MKey(k)) } else { st.first_index_less(&SKey(k)) };
                    if gk != k || gid != (k / 4) as u64 + 1 {
                        return Err(Fail::new("held-handle:designates-other-entry", format!("n={} handle {} taken for key {} now designates key {} id {}", n, h, k, gk, gid)));
                    }
                    if h2 != h {
                        return Err(Fail::new("held-handle:key-moved", format!("n={} key {} was behind handle {}, first_index_less now returns {}", n, k, h, h2 as i32)));
                    }
                }
            }
        }
        check_all(&mt, &st, &removed, &added, rep, "get-after-insert")?;
        return Ok(());
    }
    // delete by key along the deepest paths and at random, with absent keys in between
    for (i, &p) in probes.iter().enumerate() {
        if p < 0 || p as usize >= n || i % 3 == 2 {
            // absent key: must change nothing
            let key = 4 * p + 2;
            if is_map {
                mt.delete(MKey(key));
            } else {
                st.delete(&SKey(key));
            }
            continue;
        }
        let key = 4 * p + 1;
        removed.insert(key);
        if is_map {
            mt.delete(MKey(key));
        } else {
            st.delete(&SKey(key));
        }
        rep.counters.inc("op_delete_present");
    }
    check_all(&mt, &st, &removed, &added, rep, "get-after-delete")?;
    let s_ok = if is_map { snap::check_structure(&mt.verif_snapshot(|k, _| k.0), |p| *p as i64).map(|i| i.n) } else { snap::check_structure(&st.verif_snapshot(|v| v.key.0), |p| *p as i64).map(|i| i.n) };
    match s_ok {
        Ok(cnt) => {
            let want = n - removed.len();
            if cnt != want {
                return Err(Fail::new("get-after-delete:count", format!("n={}: {} entries linked after the deletions, reference {}", n, cnt, want)));
            }
        }
        Err(_) => {} // structure is C02's business
    }
    Ok(())
}

/// C11 / C12 on large trees: clear() of a tall tree must release every slot, a cleared tree must
/// behave like a fresh one, and fill / clear cycles must not grow the arena
fn big_clear_case(coll: &str, n: usize, order: &str, hint: usize, rng: &mut Rng, rep: &mut Report, judge_slots: bool) -> Result<(), Fail> {
    let keys = order_keys(n, order, rng);
    let sample: Vec<i32> = big_probes(n, &(0..n as i32).collect::<Vec<_>>(), rng).into_iter().take(300).collect();
    let refill: Vec<i32> = keys.iter().copied().take(3000.min(n)).collect();
    macro_rules! after_clear {
        ($snap:expr, $cycle:expr) => {{
            rep.evaluations += 1;
            rep.counters.inc("big_clears_checked");
            if judge_slots {
                let s = $snap;
                snap::check_slots(&s).map_err(|e| Fail::new("slots-clear", format!("n={} cycle {}: after clear: {}", n, $cycle, e.chars().take(200).collect::<String>())))?;
                if s.root != i_tree::EMPTY_REF || s.free.len() != s.slots.len().saturating_sub(1) {
                    return Err(Fail::new("slots-clear", format!("n={} cycle {}: after clear: root {} and {} of {} slots free", n, $cycle, s.root as i32, s.free.len(), s.slots.len().saturating_sub(1))));
                }
                let bound = snap::slots_bound(n, hint);
                rep.counters.max("max_buffer_len_seen", s.slots.len() as u64);
                if s.slots.len() > bound {
                    return Err(Fail::new("slots-bound", format!("n={} cycle {}: arena has {} slots for a peak population of {} (bound {})", n, $cycle, s.slots.len(), n, bound)));
                }
            }
        }};
    }
    match coll {
        "maptree" => {
            let mut t = MapTree::<MKey, MVal>::new(hint);
            for cycle in 0..3 {
                for &k in &keys {
                    t.insert(MKey(k), MVal::new(k, k as u64));
                }
                t.clear();
                after_clear!(t.verif_snapshot(|k, _| k.0), cycle);
                if !t.is_empty() {
                    return Err(Fail::new("after-clear:differs-from-fresh", "is_empty() is false after clear".to_string()));
                }
            }
            let mut fresh = MapTree::<MKey, MVal>::new(8);
            for &k in &refill {
                t.insert(MKey(k), MVal::new(k, k as u64));
                fresh.insert(MKey(k), MVal::new(k, k as u64));
            }
            for &p in &sample {
                let a = t.get_value(MKey(p)).map(|v| v.id);
                let b = fresh.get_value(MKey(p)).map(|v| v.id);
                let (ha, hb) = (t.first_index_less(MKey(p)), fresh.first_index_less(MKey(p)));
                let da = if ha == i_tree::EMPTY_REF { None } else { Some(t.value_by_index(ha).key_copy) };
                let db = if hb == i_tree::EMPTY_REF { None } else { Some(fresh.value_by_index(hb).key_copy) };
                rep.evaluations += 1;
                if a != b || da != db {
                    return Err(Fail::new("after-clear:differs-from-fresh", format!("n={} probe {}: cleared tree answers {:?}/{:?}, fresh tree {:?}/{:?}", n, p, a, da, b, db)));
                }
            }
        }
        "settree" => {
            let mut t = SetTree::<SKey, SVal>::new(hint);
            for cycle in 0..3 {
                for &k in &keys {
                    t.insert(SVal::new(k, k as u64));
                }
                t.clear();
                after_clear!(t.verif_snapshot(|v| v.key.0), cycle);
                if !t.is_empty() {
                    return Err(Fail::new("after-clear:differs-from-fresh", "is_empty() is false after clear".to_string()));
                }
            }
            let mut fresh = SetTree::<SKey, SVal>::new(8);
            for &k in &refill {
                t.insert(SVal::new(k, k as u64));
                fresh.insert(SVal::new(k, k as u64));
            }
            for &p in &sample {
                let a = t.get_value(&SKey(p)).map(|v| v.id);
                let b = fresh.get_value(&SKey(p)).map(|v| v.id);
                rep.evaluations += 1;
                if a != b {
                    return Err(Fail::new("after-clear:differs-from-fresh", format!("n={} probe {}: cleared tree answers {:?}, fresh tree {:?}", n, p, a, b)));
                }
            }
        }
        _ => {
            let mut t = KeyExpTree::<KKey, i32, u64>::new(hint);
            for cycle in 0..3 {
                for &k in &keys {
                    t.insert(KKey { k, exp: 1000, tag: 0 }, k as u64, 0);
                }
                t.clear();
                after_clear!(t.verif_snapshot(|k, _| k.k), cycle);
                if !t.is_empty() {
                    return Err(Fail::new("after-clear:differs-from-fresh", "is_empty() is false after clear".to_string()));
                }
            }
            let mut fresh = KeyExpTree::<KKey, i32, u64>::new(8);
            for &k in &refill {
                t.insert(KKey { k, exp: 50, tag: 0 }, k as u64, 0);
                fresh.insert(KKey { k, exp: 50, tag: 0 }, k as u64, 0);
            }
            for &p in &sample {
                let probe = KKey { k: p, exp: key::probe_stamp(p as u32, 1), tag: 1 };
                let a = (t.get_value(1, probe), t.first_less_or_equal(1, u64::MAX, probe));
                let b = (fresh.get_value(1, probe), fresh.first_less_or_equal(1, u64::MAX, probe));
                rep.evaluations += 1;
                if a != b {
                    return Err(Fail::new("after-clear:differs-from-fresh", format!("n={} probe {}: cleared tree answers {:?}, fresh tree {:?}", n, p, a, b)));
                }
            }
            if t.into_ordered_vec(1) != fresh.into_ordered_vec(1) {
                return Err(Fail::new("after-clear:differs-from-fresh", format!("n={}: export of the cleared and refilled tree differs from a fresh one", n)));
            }
        }
    }
    Ok(())
}

pub fn big_case(coll: &str, n: usize, order: &str, hint: usize, seed: u64, rep: &mut Report) -> Result<(), Fail> {
    big_case_with(coll, n, order, hint, seed, rep, "")
}

/// `probes`: "" (structure and storage only), "handle" (C08 monitors), "steps" (C09 monitors)
pub fn big_case_with(coll: &str, n: usize, order: &str, hint: usize, seed: u64, rep: &mut Report, probes: &str) -> Result<(), Fail> {
    let judge_structure = probes.is_empty();
    let mut rng = Rng::new(seed).derive(n as u64 ^ 0xB16);
    if probes == "clear" || probes == "clear-obs" {
        return big_clear_case(coll, n, order, hint, &mut rng, rep, probes == "clear");
    }
    if probes == "kquery" {
        return big_kquery_case(n, order, hint, &mut rng, rep);
    }
    if probes == "lookup" || probes == "held" {
        return big_lookup_held_case(coll, n, order, hint, &mut rng, rep, probes == "held");
    }
    let keys = order_keys(n, order, &mut rng);
    let mut del = keys.clone();
    rng.shuffle(&mut del);
    let checkpoints: Vec<usize> = {
        let mut v = vec![];
        let mut x = 1usize;
        while x < n {
            v.push(x);
            x = x * 2 + 1;
        }
        v.push(n);
        v
    };
    match coll {
        "maptree" => {
            let mut t = MapTree::<MKey, MVal>::new(hint);
            for (i, &k) in keys.iter().enumerate() {
                ctx::set(n as u64, i as u64);
                t.insert(MKey(k), MVal::new(k, k as u64));
                if judge_structure && checkpoints.contains(&(i + 1)) {
                    big_check(&t.verif_snapshot(|k, _| k.0), |p| *p as i64, i + 1, i + 1, hint, rep)?;
                }
            }
            if probes == "handle" {
                let sorted: Vec<i32> = (0..n as i32).collect();
                big_map_handles(&mut t, n, &sorted, &mut rng, rep)?;
            }
            for (i, &k) in del.iter().enumerate().take(n * 3 / 4) {
                t.delete(MKey(k));
                if judge_structure && checkpoints.contains(&(i + 1)) {
                    big_check(&t.verif_snapshot(|k, _| k.0), |p| *p as i64, n - i - 1, n, hint, rep)?;
                }
            }
            if probes == "handle" {
                let mut sorted: Vec<i32> = del.iter().skip(n * 3 / 4).copied().collect();
                sorted.sort_unstable();
                big_map_handles(&mut t, n, &sorted, &mut rng, rep)?;
                return Ok(());
            }
            // churn at bounded population: storage must not grow
            let mut absent: Vec<i32> = del.iter().take(n * 3 / 4).copied().collect();
            let mut present: Vec<i32> = del.iter().skip(n * 3 / 4).copied().collect();
            for i in 0..(2 * n).min(400_000) {
                if i % 2 == 0 && !absent.is_empty() {
                    let j = rng.below(absent.len() as u64) as usize;
                    let k = absent.swap_remove(j);
                    t.insert(MKey(k), MVal::new(k, k as u64));
                    present.push(k);
                } else if !present.is_empty() {
                    let j = rng.below(present.len() as u64) as usize;
                    let k = present.swap_remove(j);
                    t.delete(MKey(k));
                    absent.push(k);
                }
            }
            big_check(&t.verif_snapshot(|k, _| k.0), |p| *p as i64, present.len(), n, hint, rep)?;
            for &k in present.iter().take(200) {
                match t.get_value(MKey(k)) {
                    Some(v) if v.id == k as u64 && v.pay.intact() => {}
                    other => return Err(Fail::new("get:wrong-value", format!("get_value({}) = {:?}", k, other.map(|v| v.id)))),
                }
            }
        }
        "settree" => {
            let mut t = SetTree::<SKey, SVal>::new(hint);
            for (i, &k) in keys.iter().enumerate() {
                ctx::set(n as u64, i as u64);
                t.insert(SVal::new(k, k as u64));
                if judge_structure && checkpoints.contains(&(i + 1)) {
                    big_check(&t.verif_snapshot(|v| v.key.0), |p| *p as i64, i + 1, i + 1, hint, rep)?;
                }
            }
            if !probes.is_empty() {
                let sorted: Vec<i32> = (0..n as i32).collect();
                big_set_handles(&t, n, &sorted, &mut rng, rep, probes == "steps")?;
            }
            for (i, &k) in del.iter().enumerate().take(n * 3 / 4) {
                t.delete(&SKey(k));
                if judge_structure && checkpoints.contains(&(i + 1)) {
                    big_check(&t.verif_snapshot(|v| v.key.0), |p| *p as i64, n - i - 1, n, hint, rep)?;
                }
            }
            if !probes.is_empty() {
                let mut sorted: Vec<i32> = del.iter().skip(n * 3 / 4).copied().collect();
                sorted.sort_unstable();
                big_set_handles(&t, n, &sorted, &mut rng, rep, probes == "steps")?;
                if probes == "handle" {
                    return Ok(());
                }
            }
            // full walk in both directions over what is left
            let mut left: Vec<i32> = del.iter().skip(n * 3 / 4).copied().collect();
            left.sort_unstable();
            if !left.is_empty() {
                let mut h = t.first_index_less(&SKey(left[0]));
                let mut seen = Vec::with_capacity(left.len());
                while h != i_tree::EMPTY_REF && seen.len() <= left.len() {
                    seen.push(t.value_by_index(h).key.0);
                    h = t.index_after(h);
                }
                if seen != left && (judge_structure || probes == "steps") {
                    return Err(Fail::new("walk-forward:wrong-sequence", format!("forward walk over {} values visited {}", left.len(), seen.len())));
                }
                rep.counters.add("walk_steps", seen.len() as u64);
            }
        }
        _ => {
            // expiring-key tree: entries expire in shuffled order and are removed lazily by queries
            let mut t = KeyExpTree::<KKey, i32, u64>::new(hint);
            let mut exp_of = vec![0i32; n];
            for (i, &k) in del.iter().enumerate() {
                exp_of[k as usize] = 10 + i as i32;
            }
            for (i, &k) in keys.iter().enumerate() {
                ctx::set(n as u64, i as u64);
                t.insert(KKey { k, exp: exp_of[k as usize], tag: 0 }, k as u64, 0);
                if checkpoints.contains(&(i + 1)) {
                    big_check(&t.verif_snapshot(|k, _| k.k), |p| *p as i64, i + 1, i + 1, hint, rep)?;
                }
            }
            let mut tnow = 0;
            for step in 0..40 {
                tnow = 10 + (n * 3 / 4) as i32 * (step + 1) / 40;
                for _ in 0..(n / 8).min(20_000).max(8) {
                    let p = rng.below(n as u64 + 2) as i32 - 1;
                    let _ = t.first_less_or_equal(tnow, u64::MAX, KKey { k: p, exp: i32::MAX, tag: 1 });
                }
                let s = t.verif_snapshot(|k, _| k.k);
                let info = snap::check_structure(&s, |p| *p as i64).map_err(|e| Fail::new("structure", e))?;
                snap::check_slots(&s).map_err(|e| Fail::new("slots", e))?;
                rep.counters.inc("snapshots_checked");
                rep.counters.max("max_height_seen", info.height as u64);
                rep.evaluations += 1;
                rep.case(mix(info.n as u64, info.height as u64));
            }
            // everything still live must be found
            for &k in del.iter().rev().take(200) {
                if exp_of[k as usize] > tnow {
                    let got = t.get_value(tnow, KKey { k, exp: i32::MAX, tag: 1 });
                    if got != Some(k as u64) {
                        return Err(Fail::new("get:missed-live", format!("get_value(t={}, {}) = {:?}", tnow, k, got)));
                    }
                }
            }
        }
    }
    Ok(())
}

pub fn suite_big(cfg: &Cfg, rep: &mut Report) {
    let max_n = cfg.num("max_n", 200_000) as usize;
    let mut sizes = vec![1000usize, 10_000, 65_535, 65_536, 100_000];
    let mut x = 200_000;
    while x <= max_n {
        sizes.push(x);
        x *= 2;
    }
    sizes.retain(|&s| s <= max_n);
    let mut idx = 0u64;
    for &n in &sizes {
        for coll in ["maptree", "settree", "keytree"] {
            for order in ["asc", "desc", "random", "organ"] {
                idx += 1;
                if (idx - 1) % cfg.nshards != cfg.shard {
                    continue;
                }
                if n > 1_000_000 && order == "organ" {
                    continue;
                }
                let hint = [0usize, 1, 8, 9, 300, 100_000, 70_000][(idx % 7) as usize];
                let probes = cfg.str_or("probes", "").to_string();
                if (probes == "handle" || probes == "steps") && coll == "keytree" {
                    continue;
                }
                if probes == "steps" && coll != "settree" {
                    continue;
                }
                if probes == "kquery" && coll != "keytree" {
                    continue;
                }
                if (probes == "lookup" || probes == "held") && coll == "keytree" {
                    continue;
                }
                if let Some(only) = cfg.get("only_coll") {
                    if only != coll {
                        continue;
                    }
                }
                let line = format!("#big coll={} n={} order={} hint={} seed={} probes={}", coll, n, order, hint, cfg.seed, probes);
                if cfg.emit {
                    println!("CTOR case");
                    println!("OP {}", line);
                    return;
                }
                rep.histories += 1;
                rep.counters.inc(&format!("big_{}", coll));
                rep.counters.max("max_entries_built", n as u64);
                if let Err(f) = big_case_with(coll, n, order, hint, cfg.seed, rep, &probes) {
                    rep.violation(Viol { sig: format!("{}:{}", coll, f.sig), msg: f.msg, family: "case".into(), coll: coll.into(), ctor: "case".into(), ops: vec![line], confirmed: true });
                }
            }
        }
    }
    rep.sample(J::obj(vec![
        ("sizes", J::Arr(sizes.iter().map(|x| J::UInt(*x as u64)).collect())),
        ("per_case", J::s("insert n keys (ascending / descending / random / organ-pipe), validate the whole arena at doubling checkpoints, remove 3/4 in random order (by key, or by expiry + lazy removal for the expiring tree), churn at bounded population, validate again")),
    ]));
}

// ---------------------------------------------------------------------------------------------
// sweep-line scenario: segments with x-extent as lifetime and y as key / range

pub fn sweep_history(rng: &mut Rng, nseg: usize) -> (Vec<KOp>, (i64, i64), Vec<SOp>) {
    // horizontal-ish segments with distinct y so that the order among live segments is total
    let ymax = (nseg as i64 * 4).max(64);
    let mut ys: Vec<i32> = (0..ymax as i32).collect();
    rng.shuffle(&mut ys);
    let mut segs: Vec<(i32, i32, i32, i32)> = Vec::new(); // x0, x1, y, yhi
    let xmax = (nseg as i64 / 2).max(10);
    for i in 0..nseg {
        let x0 = rng.range(0, xmax) as i32;
        let x1 = x0 + rng.range(0, 6) as i32;
        let y = ys[i];
        let yhi = (y + rng.range(0, 12) as i32).min(ymax as i32 - 1);
        segs.push((x0, x1, y, yhi));
    }
    segs.sort();
    let mut kops = Vec::new();
    let mut sops = Vec::new();
    let mut i = 0;
    let mut live: Vec<(i32, i32)> = Vec::new(); // (y, x1)
    for x in 0..=(xmax as i32 + 7) {
        // segments starting at x enter the status structure; a y may be reused once its segment ended
        while i < segs.len() && segs[i].0 == x {
            let (_, x1, y, yhi) = segs[i];
            live.retain(|l| l.1 > x);
            if !live.iter().any(|l| l.0 == y) {
                kops.push(KOp::Ins { k: y, exp: x1, t: x });
                live.push((y, x1));
            }
            sops.push(SOp::Ins { lo: y as i64, hi: yhi as i64, exp: x1 });
            i += 1;
        }
        // neighbour queries at the sweep position, as a plane sweep does for every event point
        for _ in 0..3 {
            let p = rng.range(-1, ymax) as i32;
            kops.push(match rng.below(4) {
                0 => KOp::Fl { t: x, k: p },
                1 => KOp::Fle { t: x, k: p },
                2 => KOp::Get { t: x, k: p },
                _ => KOp::Fleb { t: x, k: p, mode: rng.below(3) as u8 },
            });
            let a = rng.range(0, ymax - 1);
            let b = (a + rng.range(0, 20)).min(ymax - 1);
            sops.push(SOp::Q { lo: a, hi: b, t: x, take: if rng.chance(1, 5) { 1 } else { -1 } });
        }
    }
    sops.push(SOp::Q { lo: 0, hi: ymax - 1, t: xmax as i32 + 7, take: -1 });
    (kops, (0, ymax - 1), sops)
}

pub fn suite_sweep_line(cfg: &Cfg, rep: &mut Report) {
    let kmon = KMon::from_list(cfg.str_or("mon", "pred,get,cblive,empty"));
    let smon = SMon::from_list(cfg.str_or("smon", "query,purge"));
    let mut h = cfg.shard;
    while h < cfg.budget {
        if let Some(o) = cfg.only {
            if h != o {
                h += cfg.nshards;
                continue;
            }
        }
        let mut rng = Rng::new(cfg.seed).derive(0x5EE9).derive(h);
        let nseg = [12usize, 40, 150, 600][(h % 4) as usize];
        let (kops, dom, sops) = sweep_history(&mut rng, nseg);
        if cfg.emit {
            let which = cfg.str_or("part", "key");
            if which == "seg" {
                println!("CTOR coord=i32 lo={} hi={}", dom.0, dom.1);
                for o in &sops {
                    println!("OP {}", o.line());
                }
            } else {
                println!("CTOR hint=8");
                for o in &kops {
                    println!("OP {}", o.line());
                }
            }
            return;
        }
        if rep.samples.is_empty() {
            rep.sample(J::obj(vec![("history", J::UInt(h)), ("segments", J::UInt(nseg as u64)), ("status_structure_ops", J::Arr(kops.iter().take(30).map(|o| J::s(o.line())).collect())), ("segment_tree_ops", J::Arr(sops.iter().take(20).map(|o| J::s(o.line())).collect()))]));
        }
        rep.histories += 1;
        rep.counters.add("ops_executed", (kops.len() + sops.len()) as u64);
        let want = cfg.str_or("coll", "both");
        if want != "list" {
            if let Err((f, i)) = key::run_history::<KTree>(8, &kops, &kmon, rep, h) {
                key_suites::handle_fail::<KTree>(rep, f, 8, &kops[..=i], true);
            }
        }
        if want != "tree" {
            if let Err((f, i)) = key::run_history::<KList>(8, &kops, &kmon, rep, h) {
                key_suites::handle_fail::<KList>(rep, f, 8, &kops[..=i], true);
            }
        }
        if cfg.flag("seg") {
            if let Err((f, i, ctor)) = seg_suites::run_history(dom, &sops, &smon, rep, h) {
                seg_suites::handle_fail(rep, f, ctor, &sops[..=i]);
            }
        }
        h += cfg.nshards;
    }
}

// ---------------------------------------------------------------------------------------------
// replay of a recorded witness

pub fn replay(cfg: &Cfg, rep: &mut Report) {
    let family = cfg.str_or("family", "key").to_string();
    let coll = cfg.str_or("coll", "KeyExpTree").to_string();
    let ctor = cfg.str_or("ctor", "hint=8").to_string();
    // the operation list comes from a file, or inline (`--ops "a;b;c"`: Miri's isolation has no file system)
    let text = match cfg.get("ops") {
        Some(inline) => inline.replace(';', "\n"),
        None => std::fs::read_to_string(cfg.str_or("ops-file", "")).unwrap_or_default(),
    };
    let lines: Vec<String> = text.lines().map(|l| l.trim().to_string()).filter(|l| !l.is_empty()).collect();
    if lines.is_empty() {
        eprintln!("replay: no operations given");
        std::process::exit(64);
    }
    rep.histories = 1;
    let mon = cfg.str_or("mon", "all").to_string();
    // fault witness?
    if let Some(inj) = lines.iter().find(|l| l.starts_with("#inject")) {

        let num = |k: &str| -> u64 { inj.split_whitespace().find_map(|p| p.strip_prefix(&format!("{}=", k)).and_then(|v| v.parse().ok())).unwrap_or(0) };
        fault::run_lines(&coll, &ctor, &lines, rep, 0, Some((num("op") as usize, num("callback"))));
        return;
    }
    if let Some(pos) = lines.iter().position(|l| l.starts_with("#twin")) {
        let pre: Vec<String> = lines[..pos.saturating_sub(1)].to_vec();
        let suf: Vec<String> = lines[pos + 1..].to_vec();
        twin_run(&coll, &ctor, &pre, &suf, rep, 0);
        return;
    }
    if family == "case" {
        for l in &lines {
            let val = |k: &str| -> String { l.split_whitespace().find_map(|p| p.strip_prefix(&format!("{}=", k))).unwrap_or("").to_string() };
            let n: usize = val("n").parse().unwrap_or(0);
            let seed: u64 = val("seed").parse().unwrap_or(1);
            let r = if l.starts_with("#export-size") {
                export_case(&val("coll"), n, &val("order"), val("expired_every").parse().unwrap_or(0), seed, rep)
            } else if l.starts_with("#seg-bulk") {
                let m = SMon::from_list(&mon);
                seg_suites::seg_bulk_case(n, val("pattern").parse().unwrap_or(0), &m, rep, 0).map_err(|e| e.0)
            } else if l.starts_with("#dup-held") {
                crate::dup_held::run_line(l, rep)
            } else if l.starts_with("#exp-types") {
                crate::exp_types::case_from_line(l, rep)
            } else if l.starts_with("#big") {
                big_case_with(&val("coll"), n, &val("order"), val("hint").parse().unwrap_or(8), seed, rep, &val("probes"))
            } else {
                Ok(())
            };
            if let Err(f) = r {
                rep.violation(Viol { sig: format!("{}:{}", coll, f.sig), msg: f.msg, family: "case".into(), coll: coll.clone(), ctor: "case".into(), ops: vec![l.clone()], confirmed: true });
            }
        }
        return;
    }
    match family.as_str() {
        "key" => {
            let ops: Vec<KOp> = lines.iter().filter_map(|l| KOp::parse(l)).collect();
            let hint: usize = ctor_val(&ctor, "hint").and_then(|s| s.parse().ok()).unwrap_or(8);
            let m = KMon::from_list(&mon);
            let r = if coll == "KeyExpList" { key::run_history::<KList>(hint, &ops, &m, rep, 0) } else { key::run_history::<KTree>(hint, &ops, &m, rep, 0) };
            if let Err((f, i)) = r {
                if coll == "KeyExpList" {
                    key_suites::handle_fail::<KList>(rep, f, hint, &ops[..=i], true)
                } else {
                    key_suites::handle_fail::<KTree>(rep, f, hint, &ops[..=i], true)
                }
            }
        }
        "ord" => {
            let ops: Vec<OOp> = lines.iter().filter_map(|l| OOp::parse(l)).collect();
            let hint: usize = ctor_val(&ctor, "hint").and_then(|s| s.parse().ok()).unwrap_or(8);
            let uni = ctor_val(&ctor, "uni").and_then(|s| s.split_once("..").map(|(a, b)| (a.parse().unwrap_or(0), b.parse().unwrap_or(20)))).unwrap_or((0, 20));
            let m = OMon::from_list(&mon);
            let name = match coll.as_str() {
                "MapTree" => "maptree",
                "MapList" => "maplist",
                "SetTree" => "settree",
                "SetList" => "setlist",
                "SetTree<i32,i32>" => "settree-int",
                "MapTree<i32,u64>" => "maptree-int",
                other => other,
            };
            ord_suites::dispatch_history(name, rep, &m, 0, hint, uni, &ops);
        }
        "seg" => {
            let ops: Vec<SOp> = lines.iter().filter_map(|l| SOp::parse(l)).collect();
            let lo: i64 = ctor_val(&ctor, "lo").and_then(|s| s.parse().ok()).unwrap_or(0);
            let hi: i64 = ctor_val(&ctor, "hi").and_then(|s| s.parse().ok()).unwrap_or(31);
            let m = SMon::from_list(&mon);
            let coord = ctor_val(&ctor, "coord").unwrap_or_else(|| "i32".into());
            if coord != "i32" {
                // other coordinate types only occur in the domain grid; re-run that case
                let mut n = 0u64;
                let _ = &mut n;
                rep.note(format!("replay of coordinate type {} goes through seg-domains", coord));
            }
            if let Err((f, i, ctor)) = seg_suites::run_history((lo, hi), &ops, &m, rep, 0) {
                seg_suites::handle_fail(rep, f, ctor, &ops[..=i.min(ops.len().saturating_sub(1))]);
            }
        }
        _ => rep.note("unknown family"),
    }
    let _ = cb::ledger_live();
}
